"""C17, properties format — the correspondence run of coq/theories/CodecProps.v (called from props/c17.py).

Model cases (ocaml/c17_driver.ml) / implementation cases (harness/src/bin/c17.rs):
  PW  <prefix> <keys> <values>     model only: text the writer model produces in list order, C (order-independent?),
                                   D (per pair: r representable, c char, u not UTF-8, t escape cut, b byte order mark), N (keys distinct)
  PRT <p> <q> <keys> <values>      implementation: map_to_properties --prefix p | map_load_properties --prefix q
  PR  <prefix> <text>              both: map_load_properties of a given text into an empty map

What is compared, per generated map:
  (a) the implementation's text with the writer model's text; the lines are sorted first, because the order of the
      lines is the HashMap's; maps of several pairs in which some escape is cut (C0) are not compared here, because
      then the buffer state, hence the text, depends on the order (C17_properties_writer: not so on the domain)
  (b) the implementation's map_load_properties result on ITS OWN text with the reader model on that same text
      (values, error kind, line number)
  (c) when every pair is in `representable` and the keys are distinct (the hypotheses of C17_properties_prefix):
      the implementation's result with the theorem's right-hand side {q.p.k: v}     -> VIOLATION if different
  (c) is evaluated first; a difference in (a) or (b) alone is a BROKEN CORRESPONDENCE (model validation failed: the
  model must be brought back in line with the code; it is recorded in ck.broken and becomes `no-failing-input-found`
  unless a failing input on the domain is found as well)
  off the domain: (a) and (b) only; a failing round trip there is known finding F18 (reasons c, u), the
      truncated-escape class (reason t) or the byte-order-mark class (reason b) and is reported as KNOWN-FINDING only
      if listed as open
and on the malformed stream: model reader == implementation reader (model validation)."""
import itertools
from vlib import enc_str, dec_str, enc_list, dec_list

PROPS_THEOREMS = ["C17_properties", "C17_properties_prefix", "C17_properties_writer"]

# the characters that matter to the writer and to the reader
SMALL = ["", " ", "\t", "\r", "\n", "\x0c", "#", "!", ":", "=", "\\", "a", "u", "0", "f", "+", "\x7f",
         "\x00", "\x01", "\x1f", "\x0b", "\u0080", "\u0081", "\u00a0", "\u00c3", "\u00a9", "\u00e9", "\u00ff",
         "\u0100", "\u0152", "\u0fff", "\u1000", "\u20ac", "\u2028", "\u65e5", "\ud7ff", "\ue000", "\uffff",
         "\U00010000", "\U0001f600", "\U0010ffff"]
W1252_SPECIAL = [0x20AC, 0x201A, 0x0192, 0x201E, 0x2026, 0x2020, 0x2021, 0x02C6, 0x2030, 0x0160, 0x2039, 0x0152, 0x017D,
                 0x2018, 0x2019, 0x201C, 0x201D, 0x2022, 0x2013, 0x2014, 0x02DC, 0x2122, 0x0161, 0x203A, 0x0153, 0x017E, 0x0178,
                 0x81, 0x8d, 0x8f, 0x90, 0x9d]
HIGH = [chr(c) for c in sorted(set(W1252_SPECIAL) | set(range(0xa0, 0x100)))]      # the 128 non-ASCII windows-1252 characters
PREFIXES = ["", "", "", "p", "a b", "x.y", "#", "\u65e5", "Pre", "A.B "]
KPOOL = ["k", "a.b", "a b", " k", "k ", "", "k=v", "k:v", "#k", "!k", "k\\", "k\tt", "\u65e5\u672c", "a\nb", "\\u0041", "u", "=", ":", " "]
VPOOL = ["v", "v ", " v", "", "a=b", "a:b", "#x", "x\\", "x\\n", "line1\nline2", "tab\tx", "\u65e5\u672c\u8a9e", "  ", "\\", "\\u0041",
         "a\r\nb", "\x0c", "\u00c3\u00a9", "\u00e2\u201a\u00ac", "x\\\\", "\\\\", "${x}", "%{y}", "\ufeff"]


def dom_text(rng, n):
    """mostly inside the domain: ASCII without the odd control characters, BMP characters from U+1000, rarely more"""
    out = []
    for _ in range(n):
        r = rng.random()
        if r < 0.55:
            out.append(chr(rng.randint(0x20, 0x7f)))
        elif r < 0.75:
            out.append(rng.choice(" \t\r\n\x0c#!:=\\u"))
        elif r < 0.95:
            c = rng.choice([rng.randint(0x1000, 0xd7ff), rng.randint(0xe000, 0xffff), 0x1000, 0xffff, 0x65e5])
            out.append(chr(c))
        elif r < 0.97:
            out.append(rng.choice(["\u00c3\u00a9", "\u00c2\u00a0", "\u00e2\u201a\u00ac"]))       # windows-1252 bytes that are UTF-8
        else:
            out.append(rng.choice(SMALL[1:]))
    return "".join(out)


def any_text(rng, n):
    out = []
    for _ in range(n):
        r = rng.random()
        if r < 0.4:
            out.append(rng.choice(SMALL[1:]))
        elif r < 0.6:
            out.append(rng.choice(HIGH))
        elif r < 0.8:
            out.append(chr(rng.randint(0, 0x7f)))
        else:
            c = rng.choice([rng.randint(0x80, 0xfff), rng.randint(0x1000, 0xd7ff), rng.randint(0xe000, 0xffff), rng.randint(0x10000, 0x10ffff)])
            out.append(chr(c))
    return "".join(out)


def long_text(rng):
    """lengths around the buffer sizes of the writer (256, 768, 2304, 6912 bytes) with escapes near the ends"""
    cap = rng.choice([256, 256, 256, 768, 768, 2304, 6912])
    filler = rng.choice(["a", "a", "a", " ", "\\", "\u65e5", "\u00c3\u00a9"])
    unit = {"a": 1, " ": 2, "\\": 2, "\u65e5": 6, "\u00c3\u00a9": 2}[filler]
    n = max(0, (cap + rng.randint(-9, 3)) // unit)
    s = [filler] * n
    for _ in range(rng.randint(0, 3)):
        if s:
            s[rng.randrange(len(s))] = rng.choice(["\u65e5", "\U0001f600", "\u0080", "a", "=", "\u1000"])
    tail = "".join(rng.choice(["\u65e5", "a", "\u0100", "\uffff", " ", "\U0001f600"]) for _ in range(rng.randint(0, 9)))
    return "".join(s) + tail


RD_ALPH = list(" \t\r\n\x0c#!:=\\abuU0123456789+fFx-") + ["\u00a0", "\u00e9", "\u00c3", "\u20ac", "\u0081", "\u0080", "\u65e5", "\U0001f600",
                                                        "\x00", "\x01", "\x1f", "\x0b", "\u2028", "\u0085", "\x1c", "\u3000"]
RD_CHUNKS = ["\\u", "\\", "\n", "\r\n", "\r", "\\\n", "\\\r\n", "=", " ", "\\u0041", "\\u00e9", "#", "!", "\\ud800", "\\udfff", "\\u+041", "\\u-041",
             "\\u 041", "\\uD7FF", "\\uFFFF", " : ", " = ", "\\\\", "\\t", "\\n", "\\f", "\\r", "\\b", "\\0", "k=v\n", "# c\n", "\\\n   ", "\\\n\u00a0\u00a0",
             "\\u00", "\\u123", "\\uzzzz", "\\u12g4", "\\u\u00e91234"]
RD_FIXED = ["", "a", "a=b", "a\\", "a\\\n", "a\\\nb", "#c\\\nb=1", " \\\n#b", "a\\\n#b", "a b c", "a:=b", "a = = b", "\\u0041=\\u00e9", "a=\\u12",
            "a=\\uzzzz", "a=\\ud800", "k=v\rk2=v2\r\n\nk3 v3\n", "  ! c \\u1", "# \\u12", "!\\ud800", "a\\\\", "a=b\\\n   \u00a0 c", "a=b\\\n\x0b c", "a=b\\\n\x1c c",
            "a=b\\\n\u3000c", "a=b\\\n\u0085c", "=", ":", " ", "\n", "\r", "\r\n", "\n\r", "=v", ":v", " =v", "k", "k ", "k  ", "k\t=\tv", "k\x0c:\x0cv", "a=1\na=2", "a=1\n\\u0061=2",
            "a\\=b=c", "a\\:b:c", "a\\ b c", "\\#a=b", "\\!a=b", "a=#b", "a=!b", "\\", "\\\\", "\\\n", "\\\\\n", "x=\\", "x=\\\\", "x=\\\n\\\n\\\ny", "x=a\\\n\n", "x=a\\\n#c\ny=1",
            "k=v\n" * 100, "k%d=v\n" * 3, "# comment only", "#", "!", "  #  ", "a=\u65e5", "\u65e5=a", "a=\U0001f600", "\ufeffa=b", "a=b\x00c", "\x00=\x00",
            "a=" + "x" * 63, "a=" + "x" * 64, "a=" + "\u00e9" * 40, "a=" + "\u20ac" * 30, "a=" + "\u65e5" * 30, "a=" + "x" * 5000, ("k=" + "\u20ac" * 21 + "\n") * 50,
            "a=b\\\n" * 50 + "c", "a=" + "\\\\" * 40, "a=" + "\\" * 41, "a=" + "\\" * 41 + "\nb"]


def rd_text(rng, n):
    out = []
    for _ in range(n):
        out.append(rng.choice(RD_CHUNKS) if rng.random() < 0.3 else rng.choice(RD_ALPH))
    return "".join(out)


def as_map(o):
    """canonical form of an M<...> result: sorted pairs (duplicates kept visible)"""
    if o[:1] != "M":
        return o
    l = dec_list(o[1:])
    return "M" + repr(sorted(zip(l[0::2], l[1::2])))


def text_lines(o):
    if o[:1] != "V":
        return o
    return "V" + repr(sorted(dec_str(o[1:]).split("\n")))


def gen_maps(rng, thorough, seed):
    """(prefix p, prefix q, dict) cases: corpus, exhaustive small scope, table validation, random, long"""
    cases = []
    # corpus: the witnesses of the theorems and of the findings
    corpus = [{}, {"": ""}, {"": "v"}, {"k": ""}, {"a b": " x\\y\n\u65e5"}, {"#!:=": "\t\r\x0c\x7f"}, {"k": "\u00c3\u00a9"},
              {"k": "\u00e9"}, {"k": "\x01"}, {"k": "\U0001f600"},
              {"k": "a" * 255 + "\u65e5"}, {"k": "a" * 253 + "\u65e5"}, {"k": "a" * 250 + "\u65e5"}, {"k": "a" * 256 + "\u65e5"},
              {"a" * 255 + "\u65e5": "v"}, {"a" * 300: "a" * 255 + "\u65e5"}, {"a" * 300: "a" * 767 + "\u65e5"},
              {"k": "v ", "k2": "v\\"}, {"k": "line1\nline2", "k ": " k"},
              {"\u00ef\u00bb\u00bfk": "v"}, {"\u00ef\u00bb\u00bf": "\u00c3\u00a9"}, {"k": "\u00ef\u00bb\u00bfv"}, {"\ufeffk": "v"}, {"\u00ef\u00bb\u00bfk": "v", "a": "b"}]
    for d in corpus:
        cases.append(("", "", d))
    cases.append(("p", "q", {"a b": " x\\y\n\u65e5", "": ""}))
    n_corpus = len(cases)
    # exhaustive small scope: one pair, key of length <= 1, value of length <= 2 over SMALL
    one = SMALL
    two = [a + b for a in SMALL[1:] for b in SMALL[1:]]
    for k in one:
        for v in one:
            cases.append(("", "", {k: v}))
    for j, v in enumerate(two):
        if thorough or j % 4 == seed % 4:
            cases.append(("", "", {"k": v}))
            if thorough or j % 16 == seed % 16:
                cases.append(("", "", {v: "x"}))
    n_exh = len(cases) - n_corpus
    # windows-1252 table: every pair of high characters (the written bytes form UTF-8 or not), every BMP code point alone
    pairs = [a + b for a in HIGH for b in HIGH]
    for j, v in enumerate(pairs):
        if thorough or j % 8 == seed % 8:
            cases.append(("", "", {"k": v}))
    if thorough:
        cps = [c for c in range(0x10000) if not 0xd800 <= c < 0xe000] + [rng.randint(0x10000, 0x10ffff) for _ in range(4000)]
    else:
        cps = sorted(set(list(range(0, 0x300)) + list(range(0xff0, 0x1010)) + list(range(0x2000, 0x2200)) + list(range(0xd7f0, 0xd800))
                         + list(range(0xe000, 0xe010)) + list(range(0xfff0, 0x10000)) + [0x10000, 0x10ffff]
                         + [rng.randint(0x300, 0xffff) for _ in range(1500)] + [rng.randint(0x10000, 0x10ffff) for _ in range(200)])
                     - set(range(0xd800, 0xe000)))
    for c in cps:
        cases.append(("", "", {"k": "x" + chr(c) + "y"}))
    n_table = len(cases) - n_corpus - n_exh
    # random maps
    for _ in range(12000 if thorough else 1600):
        d = {}
        mode = rng.random()
        for _ in range(rng.choice([0, 1, 1, 2, 2, 3, 4, 6])):
            if mode < 0.7:
                k = rng.choice(KPOOL) if rng.random() < 0.5 else dom_text(rng, rng.randint(0, 5))
                v = rng.choice(VPOOL) if rng.random() < 0.5 else dom_text(rng, rng.randint(0, 9))
            else:
                k = rng.choice(KPOOL) if rng.random() < 0.5 else any_text(rng, rng.randint(0, 4))
                v = rng.choice(VPOOL) if rng.random() < 0.4 else any_text(rng, rng.randint(0, 6))
            d[k] = v
        cases.append((rng.choice(PREFIXES), rng.choice(PREFIXES), d))
    # long keys / values around the buffer boundaries; some with company
    for _ in range(1500 if thorough else 260):
        k = long_text(rng) if rng.random() < 0.3 else dom_text(rng, rng.randint(0, 3))
        d = {k: long_text(rng)}
        if rng.random() < 0.25:
            d[dom_text(rng, 2) + "2"] = long_text(rng) if rng.random() < 0.5 else dom_text(rng, 3)
        cases.append((rng.choice(["", "", "p"]), rng.choice(["", "q"]), d))
    return cases, {"corpus": n_corpus, "exhaustive_small_scope": n_exh, "exhaustive_small_scope_complete": thorough,
                   "windows1252_table_cases": n_table}


def run_props(ck, rng, thorough, dist, nontriv):
    """returns (found_a_failing_input, number of evaluations, coverage dict)"""
    found = False
    nviol = [0]

    def violation(d):
        nviol[0] += 1
        if nviol[0] <= 5:
            d.setdefault("seed", ck.seed)
            ck.violation(d)

    nbroken = [0]

    def broken(what, wire, replay):
        """model validation failed: the correspondence model <-> code is broken (not by itself a violation of the property;
        ck.report_broken turns it into `no-failing-input-found` unless a failing input on the domain is found as well)"""
        nbroken[0] += 1
        if nbroken[0] <= 5:
            import json, os, hashlib
            dd = os.path.join(os.path.dirname(os.path.dirname(os.path.dirname(os.path.abspath(__file__)))), "replays", ck.prop)
            os.makedirs(dd, exist_ok=True)
            blob = json.dumps(dict(replay, seed=ck.seed), sort_keys=True, ensure_ascii=False, indent=1)
            path = os.path.join(dd, "corr-%s.json" % hashlib.sha1(blob.encode("utf8", "surrogatepass")).hexdigest()[:12])
            with open(path, "w", encoding="utf8", errors="surrogatepass") as f:
                f.write(blob)
            ck.broken.append("correspondence (properties): %s; case %s; details %s" % (what, wire[:300], path))
            print("BROKEN-CORRESPONDENCE property=%s %s details=%s" % (ck.prop, what, path), flush=True)

    open_ids = {k.get("id"): k for k in ck.open_findings()}
    f18_open = "F18" in open_ids
    trunc_open = any(k.get("id") in ("F28", "F18-T") or "truncat" in (k.get("class") or "") for k in ck.open_findings())
    bom_open = any(k.get("id") in ("F29", "F18-B") or "byte order mark" in (k.get("class") or "") for k in ck.open_findings())

    cases, gen_stat = gen_maps(rng, thorough, ck.seed)
    wire = ["%s\t%s\t%s" % (enc_str(p), enc_list(list(d.keys())), enc_list(list(d.values()))) for p, q, d in cases]
    mw = ck.model(["PW\t" + w for w in wire])
    io = ck.impl(["PRT\t%s\t%s\t%s\t%s" % (enc_str(p), enc_str(q), enc_list(list(d.keys())), enc_list(list(d.values()))) for p, q, d in cases])
    # the reader model on the texts the implementation wrote
    rd_idx = [i for i, o in enumerate(io) if o[:1] == "V"]
    mr = ck.model(["PR\t%s\t%s" % (enc_str(cases[i][1]), io[i].split("\t")[0][1:]) for i in rd_idx])
    mr_at = dict(zip(rd_idx, mr))
    st = {"maps": len(cases), "in_domain": 0, "in_domain_nonascii": 0, "in_domain_multi": 0, "in_domain_with_prefix": 0, "off_domain": 0,
          "off_domain_by_reason": {"c": 0, "u": 0, "t": 0, "b": 0}, "off_domain_roundtrip_fails": 0, "off_domain_roundtrip_ok": 0,
          "text_compared": 0, "text_not_compared_order_dependent": 0, "reader_on_written_text_compared": 0,
          "write_errors": 0, "single_pair_off_domain_but_roundtrip_ok": 0, "max_written_bytes": 0}
    for i, ((p, q, d), w, m, o) in enumerate(zip(cases, wire, mw, io)):
        dist["PROPS"] = dist.get("PROPS", 0) + 1
        mf = m.split("\t")
        of = o.split("\t")
        replay = {"map": d, "prefix_write": p, "prefix_load": q, "wire": "PRT\t%s\t%s\t%s\t%s" % (enc_str(p), enc_str(q), enc_list(list(d.keys())), enc_list(list(d.values()))),
                  "model": m, "implementation": o, "theorems": PROPS_THEOREMS}
        if len(mf) != 4 or len(of) != 2 or mf[0] == "OOF":
            found = True
            violation(dict(replay, kind="properties: malformed result line / model out of fuel"))
            continue
        mtext, clean, reasons, nodup = mf[0], mf[1] == "C1", mf[2][1:], mf[3] == "N1"
        otext, oread = of
        in_dom = nodup and all(r == "r" for r in reasons)
        pre = lambda x, k: k if x == "" else x + "." + k
        spec = "M" + repr(sorted((pre(q, pre(p, k)), v) for k, v in d.items()))
        if otext[:1] == "V":
            st["max_written_bytes"] = max(st["max_written_bytes"], len(dec_str(otext[1:])))
        else:
            st["write_errors"] += 1
        ok = as_map(oread) == spec
        # (c) the theorem first: a failing round trip on the domain is the VIOLATION, whatever the model says
        if in_dom:
            st["in_domain"] += 1
            st["in_domain_multi"] += len(d) > 1
            st["in_domain_with_prefix"] += bool(p or q)
            st["in_domain_nonascii"] += any(ord(ch) > 127 for k, v in d.items() for ch in k + v)
            if d:
                nontriv.add("P" + repr((p, q, sorted(d.items()))))
            if not ok:
                found = True
                violation(dict(replay, kind="map_to_properties | map_load_properties does not give back the map although every pair is in the domain "
                                            "(representable) and the keys are distinct",
                               expected=spec, got=as_map(oread), text=dec_str(otext[1:]) if otext[:1] == "V" else otext,
                               model_text=dec_str(mtext[1:]) if mtext[:1] == "V" else mtext))
                continue
        # (a) writer model == implementation (model validation; a difference is a broken correspondence)
        if clean or len(d) <= 1:
            st["text_compared"] += 1
            if text_lines(mtext) != text_lines(otext):
                broken("text written by map_to_properties differs from the writer model" + (" (on the domain of C17_properties_writer)" if clean else ""), replay["wire"],
                       dict(replay, kind="model-vs-implementation: text written by map_to_properties",
                            model_text=dec_str(mtext[1:]) if mtext[:1] == "V" else mtext, implementation_text=dec_str(otext[1:]) if otext[:1] == "V" else otext))
                continue
        else:
            st["text_not_compared_order_dependent"] += 1
        # (b) reader model == implementation on the implementation's own text
        if i in mr_at:
            st["reader_on_written_text_compared"] += 1
            if as_map(mr_at[i]) != as_map(oread):
                broken("map_load_properties of a written text differs from the reader model", replay["wire"],
                       dict(replay, kind="model-vs-implementation: map_load_properties of the text map_to_properties wrote",
                            text=dec_str(otext[1:]), model_reader=mr_at[i], implementation_reader=oread))
                continue
        if not in_dom:
            st["off_domain"] += 1
            why = [r for r in reasons if r != "r"]
            for r in set(why):
                st["off_domain_by_reason"][r] += 1
            if ok:
                st["off_domain_roundtrip_ok"] += 1
                if len(d) == 1:
                    st["single_pair_off_domain_but_roundtrip_ok"] += 1      # would mean: the domain is narrower than necessary
            else:
                st["off_domain_roundtrip_fails"] += 1
                if ("c" in why or "u" in why) and f18_open:
                    ck.known("F18 map_to_properties | map_load_properties does not give back a map with a key/value outside `representable` "
                             "(unpadded \\u escape, or windows-1252 bytes that are not UTF-8); the model reproduces the text and the result")
                if "t" in why and trunc_open:
                    ck.known("java-properties drops the rest of a \\u escape at the end of its write buffer (truncated-escape class); the model reproduces it")
                if "b" in why and bom_open:
                    ck.known("a key whose written bytes start with EF BB BF is read back without them (byte order mark sniffing); the model reproduces it")
    # ---- the malformed stream: reader model == implementation (model validation) -----------------
    texts = list(RD_FIXED)
    for n in range(0, 4 if thorough else 3):
        for t in itertools.product(["a", "=", ":", " ", "\\", "\n", "\r", "#", "u", "0"], repeat=n):
            texts.append("".join(t))
    n_rd_exh = len(texts)
    for _ in range(60000 if thorough else 7000):
        texts.append(rd_text(rng, rng.randint(0, 14)))
    for _ in range(300 if thorough else 40):
        texts.append("".join(rd_text(rng, rng.randint(0, 30)) + rng.choice(["\n", "\r\n", "\r", "\\\n", ""]) for _ in range(rng.randint(5, 80))))
    rl = ["PR\t%s\t%s" % (enc_str(rng.choice(["", "", "", "p", "a b"])), enc_str(t)) for t in texts]
    rm = ck.model(rl)
    ri = ck.impl(rl)
    rst = {"texts": len(texts), "exhaustive_upto_len": 3 if thorough else 2, "exhaustive": n_rd_exh - len(RD_FIXED), "results": {}}
    for t, line, a, b in zip(texts, rl, rm, ri):
        dist["PROPSR"] = dist.get("PROPSR", 0) + 1
        key = a.split(":")[0] if a[:1] == "E" else "pairs:%d" % min(4, len(dec_list(a[1:])) // 2) if a[:1] == "M" else a
        rst["results"][key] = rst["results"].get(key, 0) + 1
        if a[:1] == "M" and len(t) > 3:
            nontriv.add("R" + t)
        if as_map(a) != as_map(b):
            broken("map_load_properties of an arbitrary text differs from the reader model", line,
                   {"kind": "model-vs-implementation: map_load_properties on an arbitrary text (model validation of the reader)", "text": t, "wire": line,
                    "model": a, "implementation": b, "theorems": PROPS_THEOREMS})
    cov = dict(gen_stat, **st)
    cov["reader_stream"] = rst
    cov["broken_correspondences"] = nbroken[0]
    cov["compared"] = ("text: sorted lines of map_to_properties == extracted writer; reader: map_load_properties == extracted reader on the written texts and on the "
                       "malformed stream (values, error kind, line number); on the domain: implementation == {q.p.k: v} (C17_properties_prefix)")
    return found, len(cases) + len(rd_idx) + len(texts), cov
