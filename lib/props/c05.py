"""C05 — functions: arguments, return values, early return and scoped isolation.

Formal side: coq/props/C05.v (flat machine FlowFn.v = Flow.v + function/mod.rs + utils/scope.rs;
FlowFnTree.v = structured programs with function definitions, calls and returns, `compile_prog`,
tree-walking interpreter `prog_run`; syntactic predicate `known_f6` for the programs on which the
pinned for-in state is shared between activations).
Correspondence: programs are generated as trees, compiled by the extracted `compile_prog`, run by
the extracted `prog_run` (spec) and the extracted flat machine (model); the script text is run on
the real SDK.  Compared (observe_at): emit trace and final variables.  Outside KnownF6 all three
must agree; inside KnownF6 the model must still equal the implementation (it reproduces F6) and
the difference to the spec is counted as the known finding."""
import itertools
import os
import vlib
from vlib import enc_str as E, enc_list, dec_list
from props.c04 import t_cond, t_prim, SAFE_VALUES, split_result

THEOREMS = ["C05_tables", "C05_fn_end", "C05_sim", "C05_sites_unique", "C05_sim_ordered", "C05_F6_refuted_return",
            "C05_F6_refuted_recursion", "C05_sim_cond", "C05_cond_em_scope", "C05_sim_cond_ideal",
            "C05_cond_em_witness"]


# ---- trees -> prefix notation ---------------------------------------------------------------------
def t_arg(a):
    return "-" if a is None else "%s:%s" % (a[0], E(a[1]))


def t_fcond(c):
    if c[0] == "F":
        return ["F", E(c[1]), str(len(c[2]))] + [t_arg(a) for a in c[2]]
    if c[0] == "~":
        return ["~"] + t_fcond(c[1])
    return t_cond(c)


def t_block(b):
    out = ["["]
    for s in b:
        out += t_stmt(s)
    return out + ["]"]


def t_stmt(s):
    k = s[0]
    if k == "c":
        return ["c"] + t_prim(s[1])
    if k == "i":
        _, sp, c, b, els, e = s
        out = ["i", E(sp)] + t_fcond(c) + t_block(b)
        closed = False
        for el in els:
            if el[0] == "ei":
                out += ["ei", E(el[1])] + t_fcond(el[2]) + t_block(el[3])
            else:
                out += ["el", E(el[1])] + t_block(el[2])
                closed = True
        if not closed:
            out += ["n"]
        return out + [E(e)]
    if k == "w":
        _, sp, c, b, e = s
        return ["w", E(sp)] + t_fcond(c) + t_block(b) + [E(e)]
    if k == "f":
        _, sp, x, hv, b, e = s
        return ["f", E(sp), E(x), E(hv)] + t_block(b) + [E(e)]
    if k == "k":
        _, out, f, args = s
        return ["k", "-" if out is None else E(out), E(f), str(len(args))] + [t_arg(a) for a in args]
    _, sp, a = s
    return ["r", E(sp), t_arg(a)]


def t_prog(defs, main):
    out = ["D", str(len(defs))]
    for (sp, scoped, name, body, e) in defs:
        out += [E(sp), "1" if scoped else "0", E(name)] + t_block(body) + [E(e)]
    return out + t_block(main)


def count(b, acc):
    for s in b:
        k = s[0]
        if k == "i":
            count(s[3], acc)
            for el in s[4]:
                count(el[-1], acc)
        elif k == "w":
            count(s[3], acc)
        elif k == "f":
            acc["for"] += 1
            count(s[4], acc)
        elif k == "k":
            acc["call"] += 1
        elif k == "r":
            acc["return"] += 1
    return acc


# ---- generator ------------------------------------------------------------------------------------
class Gen:
    def __init__(self, rng, T, vals):
        self.rng, self.T, self.vals = rng, T, vals

    def sp(self, key):
        return self.rng.choice(self.T[key])

    def program(self, max_instr):
        r = self.rng
        self.budget = r.randint(6, max_instr)
        self.scripts = {}
        self.nconds = 0
        self.ntag = 0
        nf = r.choice([1, 1, 2, 2, 3, 4])
        # mode A: no condition-position calls; B: such calls, every function ends with `return <value>`
        # and has no bare return; C: such calls, calls made inside functions have no output variable
        # (B and C keep the program out of the corner the property leaves open)
        self.mode = r.choice("AAAAABBBBCCD")   # D: condition-position calls, nothing avoided
        self.fnames = ["f%d" % k for k in range(nf)]
        if r.random() < 0.2:
            # a function may take the short name of a standard command (the definition takes the name over; seed C05-w5-m1:
            # such a function never became callable); names of commands the generated programs do not use
            self.fnames = r.sample(["trim", "length", "uppercase", "range", "contains", "camelcase", "noop", "dirname", "concat", "echo"], nf)
        self.scoped = [r.random() < 0.4 for _ in range(nf)]
        self.arrays = []
        main_pre = []
        for k in range(r.randint(0, 2)):
            h = "h%d" % k
            n = r.choice([0, 1, 2, 3, 3])
            main_pre.append(("c", ("A", h, [r.choice(self.vals) + str(j) for j in range(n)])))
            self.arrays.append(h)
            self.budget -= 1
        self.scripts["cr"] = "".join(r.choice("TTF") for _ in range(r.randint(0, 6)))
        defs = []
        for k in range(nf):
            self.cur = k
            self.vars = ["1", "2", "a", "b", "r0", "r1"]
            body = self.block(r.choice([1, 2, 3]), 0, in_for=False, infn=True, top=True)
            if self.mode == "B":
                body.append(("r", self.sp("return"), self.arg() or ("L", "yes")))
            elif self.mode == "A" and r.random() < 0.15:
                # the function ends in a self-call on its very last line (tail position), stopped by the shared script `cr`
                body.append(("i", self.sp("if"), ("!", ("N", "cr")), [("r", self.sp("return"), self.arg())], [], self.sp("close_if")))
                body.append(("k", r.choice([None, None, "r1"]), self.fnames[k],
                             [a for a in (self.arg() for _ in range(r.choice([0, 1, 2]))) if a is not None]))
            elif r.random() < 0.5:
                body.append(("r", self.sp("return"), self.arg()))
            defs.append((self.sp("function"), self.scoped[k], self.fnames[k], body, self.sp("close_fn")))
        if self.mode != "A":
            # a tester for while conditions: truthy while its script lasts
            defs.append((self.sp("function"), False, "ft",
                         [("c", ("E", "t", ["1"])), ("i", "if", ("N", "cw"), [("r", "return", ("V", "1"))], [], "end"),
                          ("r", "return", ("L", "no"))], "end"))
            self.scripts["cw"] = "".join(r.choice("TTF") for _ in range(r.randint(0, 5)))
        self.cur = -1
        self.vars = ["a", "b", "r0", "r1", "r2"]
        main = main_pre + self.block(2, 0, in_for=False, infn=False, top=True)
        # make sure the functions are used: a few more calls, some repeated
        for _ in range(r.randint(1, 4)):
            main.append(self.call(top=True))
            if r.random() < 0.5:
                main.append(("c", ("E", "m%d" % len(main), [r.choice(self.vars) for _ in range(2)])))
        main.append(("c", ("E", "fin", ["r0", "r1", "r2", "a", "b"])))
        init = []
        for k, v in sorted(self.scripts.items()):
            init += [k, v]
        return defs, main, init

    def cond_var(self):
        self.nconds += 1
        n = "c%d" % self.nconds
        r = self.rng
        self.scripts[n] = "".join(r.choice("TTF") for _ in range(r.choice([0, 1, 1, 2, 2, 3, 4])))
        return n

    def call_cond(self):
        """a condition-position call: forward callee only (or any, from main), so no new cycle"""
        r = self.rng
        k = self.cur
        cands = [j for j in range(len(self.fnames)) if j > k] if k >= 0 else list(range(len(self.fnames)))
        if not cands:
            return None
        args = [a for a in (self.arg() for _ in range(r.choice([0, 1, 1, 2]))) if a is not None]
        c = ("F", self.fnames[r.choice(cands)], args)
        return ("~", c) if r.random() < 0.25 else c

    def cond(self, loop):
        r = self.rng
        if loop:
            if self.mode != "A" and r.random() < 0.3:
                c = ("F", "ft", [("L", r.choice(["yes", "x", "1"]))])
                return c
            return ("N", self.cond_var())
        if self.mode != "A" and r.random() < 0.4:
            c = self.call_cond()
            if c:
                return c
        x = r.random()
        if x < 0.45:
            return ("N", self.cond_var())
        if x < 0.55:
            return ("!", ("N", self.cond_var()))
        if x < 0.9:
            return ("V", r.choice(self.vars + ["undefined"]))
        return ("!", ("V", r.choice(self.vars)))

    def arg(self):
        r = self.rng
        x = r.random()
        if x < 0.15:
            return None
        if x < 0.5:
            return ("L", r.choice(self.vals))
        return ("V", r.choice(self.vars + ["undefined"]))

    def call(self, top=False):
        r = self.rng
        k = self.cur
        top = top or k < 0
        # forward calls are free; backward / self calls (cycles) are made only under `if next cr`
        cands = [j for j in range(len(self.fnames)) if j > k] if not top else list(range(len(self.fnames)))
        if top or (cands and r.random() < 0.7):
            j = r.choice(cands)
            guarded = False
        else:
            j = r.choice(range(0, k + 1))
            guarded = True
        args = [a for a in (self.arg() for _ in range(r.choice([0, 1, 1, 2, 3]))) if a is not None]
        out = r.choice([None, "r0", "r1", "r2", "a"])
        if self.mode == "C" and self.cur >= 0:
            out = None
        st = ("k", out, self.fnames[j], args)
        if guarded:
            return ("i", self.sp("if"), ("N", "cr"), [st], [], self.sp("close_if"))
        return st

    def prim(self, in_for):
        r = self.rng
        x = r.random()
        self.ntag += 1
        if x < 0.55:
            vs = [r.choice(self.vars + ["undefined"]) for _ in range(r.choice([0, 1, 1, 2]))]
            return ("E", "e%d" % self.ntag, vs)
        if x < 0.75:
            return ("S", r.choice(["a", "b"]), r.choice(self.vals))
        if x < 0.85:
            return ("C", r.choice(["a", "b"]), r.choice(self.vars + ["undefined"]))
        if x < 0.92 and self.arrays and not in_for and self.cur < 0:   # never in functions: a loop may call them
            return ("P", r.choice(self.arrays), r.choice(self.vals))
        return ("E", "e%d" % self.ntag, [])

    def block(self, depth, level, in_for, infn, top=False):
        r = self.rng
        out = []
        n = r.choice([0, 1, 1, 2, 2, 3]) if not top else r.randint(1, 5)
        for _ in range(n):
            if self.budget <= 0:
                break
            x = r.random()
            if depth == 0 or x < 0.35:
                self.budget -= 1
                out.append(("c", self.prim(in_for)))
            elif x < 0.55:
                self.budget -= 1
                out.append(self.call())
            elif x < 0.65 and infn:
                self.budget -= 1
                out.append(("r", self.sp("return"), self.arg() or ("L", "x") if self.mode == "B" else self.arg()))
            elif x < 0.82:
                self.budget -= 2
                b = self.block(depth - 1, level + 1, in_for, infn)
                els = []
                for _ in range(r.choice([0, 0, 1, 1, 2])):
                    self.budget -= 1
                    els.append(("ei", self.sp("elseif"), self.cond(False), self.block(depth - 1, level + 1, in_for, infn)))
                if r.random() < 0.4:
                    self.budget -= 1
                    els.append(("el", self.sp("else"), self.block(depth - 1, level + 1, in_for, infn)))
                out.append(("i", self.sp("if"), self.cond(False), b, els, self.sp("close_if")))
            elif x < 0.91:
                self.budget -= 2
                out.append(("w", self.sp("while"), self.cond(True), self.block(depth - 1, level + 1, in_for, infn),
                            self.sp("close_while")))
            else:
                self.budget -= 2
                v = "v%d" % level
                if v not in self.vars:
                    self.vars.append(v)
                hv = r.choice(self.arrays + ["undefined", "1"]) if self.arrays else "1"
                out.append(("f", self.sp("for"), v, hv, self.block(depth - 1, level + 1, True, infn), self.sp("close_for")))
        return out


def case_line(defs, main, init):
    return "P\t%s\t%s" % (enc_list(init), " ".join(t_prog(defs, main)))


def directed(T):
    """small programs for every behaviour the property names, every spelling of the function keywords"""
    cases = []
    for so in T["function"]:
        for sc in T["close_fn"]:
            for sr in T["return"]:
                for scoped in (False, True):
                    body = [("c", ("E", "in", ["1", "2", "a"])), ("c", ("S", "b", "B1")),
                            ("i", "if", ("V", "1"), [("r", sr, ("V", "2"))], [], "end"), ("c", ("E", "tail", []))]
                    main = [("c", ("S", "a", "A0")), ("c", ("S", "r0", "old")),
                            ("k", "r0", "f0", [("L", "yes"), ("L", "v1")]), ("c", ("E", "m1", ["r0", "a", "b", "1"])),
                            ("k", "r0", "f0", [("L", "no"), ("L", "v2")]), ("c", ("E", "m2", ["r0", "a", "b", "1"])),
                            ("k", None, "f0", [("V", "a")]), ("c", ("E", "m3", ["r0", "a", "b"]))]
                    cases.append(("directed", [(so, scoped, "f0", body, sc)], main, []))
    # bare return, return from nested loops, recursion
    for scoped in (False, True):
        body = [("w", "while", ("N", "c1"), [("f", "for", "x", "1", [("i", "if", ("N", "c2"), [("r", "return", ("V", "x"))], [], "end"),
                                                                           ("c", ("E", "it", ["x"]))], "end")], "end"),
                ("r", "return", None)]
        main = [("c", ("A", "h", ["p", "q", "s"])), ("k", "r0", "f0", [("V", "h")]), ("c", ("E", "m1", ["r0"])),
                ("k", "r1", "f0", [("V", "h")]), ("c", ("E", "m2", ["r1"]))]
        for s1 in ("T", "TT", "TTT"):
            for s2 in ("", "F", "FT", "FFFT", "T", "FFF"):
                cases.append(("directed", [("fn", scoped, "f0", body, "end")], main, ["c1", s1, "c2", s2]))
    rec = [("c", ("E", "enter", ["1"])), ("i", "if", ("N", "cr"), [("k", "r1", "f0", [("L", "deeper")]), ("c", ("E", "back", ["r1", "1"]))],
                                           [("el", "else", [("r", "return", ("L", "bottom"))])], "end"),
           ("r", "return", ("V", "1"))]
    for s in ("", "T", "TT", "TTT", "TFT"):
        cases.append(("directed", [("fn", False, "f0", rec, "end_fn")], [("k", "r0", "f0", [("L", "top")]), ("c", ("E", "m", ["r0", "r1", "1"]))], ["cr", s]))
    # tail self-calls (seed C05-w6-m1: a self-call on the last line before the function's end reused the running call frame, so the
    # innermost `return v` landed in the OUTERMOST call's output variable): the recursive call is the last statement, with and
    # without an output variable, scoped or not; the outer call has an output variable / none / sits in condition position
    for scoped in (False, True):
        for inner_out in (None, "r1"):
            for ending in (("L", "bottom"), ("V", "1"), None):
                tailrec = [("c", ("E", "enter", ["1"])),
                           ("i", "if", ("!", ("N", "cr")), [("r", "return", ending)], [], "end"),
                           ("k", inner_out, "f0", [("L", "deeper")])]
                for s in ("", "T", "TT", "TTT"):
                    cases.append(("directed", [("fn", scoped, "f0", tailrec, "end")],
                                  [("c", ("S", "r0", "old")), ("c", ("S", "r1", "old1")), ("k", "r0", "f0", [("L", "top")]),
                                   ("c", ("E", "m", ["r0", "r1", "1"])), ("k", None, "f0", [("L", "again")]),
                                   ("c", ("E", "m2", ["r0", "r1"]))], ["cr", s + s]))
                    cases.append(("directed", [("fn", scoped, "f0", tailrec, "end")],
                                  [("c", ("S", "r0", "old")),
                                   ("i", "if", ("F", "f0", [("L", "top")]), [("c", ("E", "T", ["r0"]))], [("el", "else", [("c", ("E", "E", ["r0"]))])], "end"),
                                   ("c", ("E", "fin", ["r0", "r1"]))], ["cr", s]))
    # calls in condition position: if / elseif / while / not, scoped or not, value / bare return / fall-off,
    # inside loops and inside other functions (also evaluated in condition position themselves)
    ft = ("fn", False, "ft", [("c", ("E", "t", ["1"])), ("i", "if", ("N", "cw"), [("r", "return", ("V", "1"))], [], "end"),
                              ("r", "return", ("L", "no"))], "end")
    for scoped in (False, True):
        for ending in ("value", "bare", "falloff"):
            tail = {"value": [("r", "return", ("V", "1"))], "bare": [("r", "return", None)], "falloff": []}[ending]
            fp = ("function", scoped, "f0", [("c", ("E", "p", ["1", "a"])), ("c", ("S", "b", "inner"))] + tail, "end")
            fg = ("fn", False, "f1", [("i", "if", ("F", "f0", [("V", "1")]), [("r", "return", ("L", "yes"))],
                                       [("ei", "elseif", ("~", ("F", "f0", [("V", "2")])), [("r", "return", ("L", "0"))])], "end"),
                                      ("r", "return", ("V", "2"))], "end_fn")
            for a1, a2 in (("yes", "no"), ("no", "yes"), ("0", "0"), ("x", "False")):
                main = [("c", ("S", "a", "A0")), ("c", ("A", "h", ["yes", "no", "q"])),
                        ("i", "if", ("F", "f0", [("L", a1)]), [("c", ("E", "A", ["b"]))],
                         [("ei", "elif", ("F", "f0", [("L", a2)]), [("c", ("E", "B", ["b"]))]),
                          ("el", "else", [("c", ("E", "C", ["b"]))])], "end"),
                        ("i", "if", ("~", ("F", "f0", [("L", a1)])), [("c", ("E", "N", []))], [], "end_if"),
                        ("f", "for", "v", "h", [("i", "if", ("F", "f0", [("V", "v")]), [("c", ("E", "L", ["v"]))], [], "end")], "end"),
                        ("w", "while", ("F", "ft", [("L", a1)]), [("c", ("E", "W", []))], "end"),
                        ("i", "if", ("F", "f1", [("L", a1), ("L", a2)]), [("c", ("E", "G", []))], [("el", "else", [("c", ("E", "H", []))])], "end"),
                        ("k", "r0", "f1", [("L", a2), ("L", a1)]), ("c", ("E", "fin", ["r0", "a", "b", "1", "2"]))]
                cases.append(("directed", [fp, fg, ft], main, ["cw", "TTF"]))
    # an error under a condition-position call ends the nested loop and becomes the error of the condition's line
    for pos in (0, 1):
        body = [("c", ("E", "in", ["1"])), ("c", ("E", "after", [])), ("r", "return", ("L", "yes"))]
        body.insert(1 + pos, ("c", ("P", "nope", "x")))
        cases.append(("directed", [("fn", False, "f0", body, "end")],
                      [("c", ("S", "a", "A0")), ("i", "if", ("F", "f0", [("L", "v")]), [("c", ("E", "T", []))],
                                                   [("el", "else", [("c", ("E", "E", []))])], "end"),
                       ("c", ("E", "fin", ["a"]))], []))
    # the open corner itself (not compared): under a condition-position call, r = h where h falls off
    cases.append(("directed", [("fn", False, "f0", [("c", ("E", "h", []))], "end"),
                               ("fn", False, "f1", [("k", "r0", "f0", []), ("r", "return", ("V", "r0"))], "end")],
                  [("c", ("S", "r0", "old")), ("i", "if", ("F", "f1", []), [("c", ("E", "T", []))], [("el", "else", [("c", ("E", "E", []))])], "end"),
                   ("c", ("E", "fin", ["r0"]))], []))
    return cases


def run(ck):
    ck.gen_from_source()
    ok, _ = ck.coq_build(["props/C05.vo", "extract/C05_extract.vo"])
    ck.print_assumptions(["DSP.C05"], ["DSP.C05." + t for t in THEOREMS])
    ck.source_tie("findcmds")
    ck.source_tie("flowfor")
    ck.source_tie("flowwhile")
    ck.source_tie("flowfn")
    ck.source_tie("flowif")
    ck.source_tie("smallnat")
    ck.flow_tables_standin()
    ck.hygiene()
    ck.ocaml_build()
    ck.harness_build(["c05"])
    exe = os.path.join(vlib.ROOT, "ocaml", "bin", "c05_model")
    model_ok = not any(b.startswith("ocaml") for b in ck.broken) and os.path.exists(exe)
    thorough = ck.tier == "thorough"
    rng = ck.rng
    if not model_ok:
        ck.coverage.update({"evaluations": 0, "distinct_nontrivial": 0, "rule": "model did not build", "samples": []})
        ck.report_broken(False)
        return
    tl = ck.model(["TABLES"])[0]
    T = {}
    for kv in tl.split("|"):
        k, v = kv.split("=", 1)
        T[k] = dec_list(v) if k != "wf" else v
    ck.obligations.append("tables_wf computes to true on the regenerated tables (extracted)")
    if T["wf"] == "T":
        ck.discharged.append("tables_wf (extracted)")
    else:
        ck.broken.append("tables_wf computes to false on the regenerated tables")
    canon = {"function": "Function", "endfunction": "EndFunction", "return": "Return"}
    names, want = [], []
    for k, suffix in canon.items():
        full = [n for n in T[k] if n.endswith("::" + suffix)]
        for n in T[k]:
            names.append(n)
            want.append(full[0] if full else "?missing-full-name")
    extra = ["f0", "f1", "f2", "ft"] + SAFE_VALUES + ["undefined", "deeper", "bottom", "top", "yes", "old"]
    reg = dec_list(ck.impl(["REG\t" + enc_list(names + extra)])[0])
    ck.obligations.append("registry: every spelling of function / end_function / return runs its command; generated names are free")
    bad_reg = [(n, w, g) for n, w, g in zip(names, want, reg) if w != g]
    taken = [n for n, g in zip(extra[:4], reg[len(want):len(want) + 4]) if g != "?"]
    if bad_reg or taken:
        ck.broken.append("registry disagrees with the generated names: %s %s" % (bad_reg[:3], taken))
    else:
        ck.discharged.append("registry")
    vals = [v for v, g in zip(extra[4:4 + len(SAFE_VALUES)], reg[len(want) + 4:]) if g == "?"]

    f6_open = any(k.get("id") == "F6" and str(k.get("status", "")).startswith("open") for k in ck.known_db)
    cases = directed(T)
    n_directed = len(cases)
    g = Gen(rng, T, vals or ["x"])
    for _ in range(150000 if thorough else 30000):
        defs, main, init = g.program(50)
        cases.append(("random", defs, main, init))

    found_box = {"found": False, "eval": 0}
    nontriv = set()
    dist = {"kinds": {}, "class": {}, "functions": {}, "calls": {}, "returns": {}, "scoped_functions": {}, "instructions": {}}
    f6 = {"programs": 0, "spec_differs": 0, "witness": None}
    samples = []

    def evaluate(cases):
        lines = [case_line(d, m, i) for (_, d, m, i) in cases]
        m_out = ck.model(lines, timeout=900)
        idx, impl_lines = [], []
        found_box["eval"] += len(cases)
        for k, o in enumerate(m_out):
            f = o.split("\t")
            if len(f) != 5:
                ck.broken.append("model driver: bad output %r on case %d" % (o[:80], k))
                continue
            idx.append(k)
            impl_lines.append("R\t%s\t%s" % (f[0], enc_list(cases[k][3])))
        i_out = ck.impl(impl_lines, timeout=900)

        for pos, (k, io_full) in enumerate(zip(idx, i_out)):
            kind, defs, main, init = cases[k]
            text, wf, kf6, spec, model = m_out[k].split("\t")
            ordered = "O" in kf6
            condcalls = "C" in kf6
            corner = "K" in kf6
            kf6 = kf6[:1]
            io = split_result(io_full)[0] if io_full.startswith("OK") else io_full
            script_lines = dec_list(text)
            acc = {"for": 0, "call": 0, "return": 0}
            for d in defs:
                count(d[3], acc)
            count(main, acc)
            dist["kinds"][kind] = dist["kinds"].get(kind, 0) + 1
            for key, val in (("functions", len(defs)), ("calls", min(acc["call"], 12)), ("returns", min(acc["return"], 8)),
                             ("scoped_functions", sum(1 for d in defs if d[1])), ("instructions", len(script_lines) // 10 * 10)):
                dist[key][val] = dist[key].get(val, 0) + 1
            bad = None
            cls = None
            if corner and wf == "T":
                # the corner the property leaves open (output variable of a value-less call made under a
                # condition-position call) can be reached: nothing is compared
                cls = "open corner reachable: not compared"
            elif wf != "T":
                bad = "generated program is outside the theorem's domain (wf_prog = F)"
            elif spec == "ERR" and model.startswith("STOP") and kf6 != "T":
                # array_push on a variable that holds no array (e.g. invisible in a <scope> function)
                cls = "command error (array_push without array)"
                _, l, kindm = model.split(" ")
                if not (io_full.startswith("CRASH") or io_full.startswith("ERROR %s " % l)):
                    bad = "first error expected at line %s" % l
            elif spec in ("FUEL", "ERR", "RET") or model == "FUEL":
                cls = "skipped (%s / %s)" % (spec[:4], model[:4])
            elif kf6 == "T":
                cls = "KnownF6"
                f6["programs"] += 1
                if model.startswith("STOP"):
                    # the model stops at the first Error (for-in entry stolen by another activation); the real
                    # runner reports it and goes on: compare the line of the first error only
                    _, l, kindm = model.split(" ")
                    cls = "KnownF6, ends in an error"
                    f6["spec_differs"] += 1
                    if kindm.startswith("Error"):
                        if not (io_full.startswith("CRASH") or io_full.startswith("ERROR %s " % l)):
                            bad = "KnownF6 program: first error expected at line %s" % l
                    elif not io_full.startswith("CRASH"):
                        bad = "KnownF6 program: the model crashes at line %s, the implementation does not" % l
                elif io != model:
                    bad = "KnownF6 program: the model (which reproduces F6) and the implementation differ"
                elif spec != model:
                    cls = "KnownF6, differs from the structured semantics"
                    f6["spec_differs"] += 1
                    if f6["witness"] is None or len(script_lines) < len(f6["witness"]["script"]):
                        f6["witness"] = {"script": script_lines, "init": init, "spec": spec, "implementation": io}
            else:
                cls = "in domain of C05_sim (calls follow the definition order)" if ordered else \
                      "in domain of C05_sim_cond (calls in condition position)" if condcalls else \
                      "in domain of C05_sim (call-graph cycle: recursion)"
                nontriv.add((text, tuple(init)))
                if spec != model:
                    bad = "extracted model and extracted spec (prog_run) disagree outside KnownF6"
                elif io != model:
                    if not io_full.startswith("OK"):
                        bad = "implementation stopped (%s) where the structured semantics runs to the end" % io_full[:40]
                    else:
                        bad = "trace / final variables differ from the tree-walking interpreter"
            if cls:
                dist["class"][cls] = dist["class"].get(cls, 0) + 1
            if bad:
                found_box["found"] = True
                if len(ck.violations) < 5:
                    ck.violation({"kind": bad, "case_kind": kind, "script": script_lines, "initial_variables": init,
                                  "known_f6": kf6, "spec(prog_run)": spec, "model(flat machine)": model, "implementation": io_full,
                                  "theorems": ["C05_sim_cond"] if condcalls else ["C05_sim"], "seed": ck.seed,
                                  "replay_cmd": "printf '%s\\n' | .cache/cargo-target/release/c05" % impl_lines[pos].replace("\t", "\\t")})
            elif len(samples) < 3 and kind == "random" and cls and cls.startswith("in domain") and acc["call"] >= 3 and acc["return"] >= 2:
                samples.append({"script": script_lines, "init": init})

    all_cases = cases
    evaluate(all_cases[:n_directed])
    if not found_box["found"]:
        evaluate(all_cases[n_directed:])
    found = found_box["found"]
    if f6["spec_differs"] and f6_open:
        ck.known("F6 for-in iteration state is keyed by line, not by activation: %d of %d KnownF6 programs differ from the structured "
                 "semantics, e.g. %s" % (f6["spec_differs"], f6["programs"], " / ".join(f6["witness"]["script"])[:300]))
    ck.coverage.update({
        "evaluations": found_box["eval"],
        "distinct_nontrivial": len(nontriv),
        "rule": "distinct (script text, initial variables) of well-formed programs outside KnownF6 on which spec and model run to the "
                "end; trace and final variables compared between spec, model and the real SDK.  Directed part: every spelling of "
                "function / end / return x scoped or not x value / bare return / fall off the end x output variable defined before or "
                "not, returns from inside while+for+if under all short condition scripts, recursion to depth 3.  Random part: 1-4 "
                "functions (40% scoped), nested / recursive / repeated calls, returns at any depth, <= 50 instructions.",
        "exhaustive": False,
        "directed_cases": n_directed,
        "samples": samples,
        "distribution": dist,
        "known_f6": {k: v for k, v in f6.items()},
    })
    ck.report_broken(found)
    ck.assumptions += [
        "conditions and straight-line commands are the small language of Flow.v (plus user-function calls in condition position, C05_sim_cond)",
        "function names are not names of other commands; at most nine arguments (one-digit argument variables)",
        "line_context_name is constantly empty (no script-implemented commands involved) and omitted from the model",
        "the spec follows the implementation in the corner the property leaves open: after a <scope> call that ends without a value the "
        "caller's old value of the output variable is back",
    ]
