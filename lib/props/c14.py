"""C14 — including files is pasting them in place, provenance kept.

Formal side: props/C14.v (model Include.v of parser::parse_file + include_files_preprocessor::run on
top of the shared parser model Parser.v; specification = the tagged pasting `inline_x`).
Correspondence: random ACYCLIC include trees on real directories below .cache/c14/<case>/ (created,
used and removed per case by the Rust harness).  The extracted model gets the same tree as a
directory tree; the path of every included file is computed by the EXTRACTED lexical model
IncludePath.resolve (Path::parent, PathBuf::push, canonicalize-or-plain-join); only
std::fs::canonicalize and the file contents come from an emulation of the OS in ocaml/c14_driver.ml
(Section variables canon / fs), which is itself checked against the OS by the K cases.
  U cases: extracted Path::parent / PathBuf::push / the pre-processor's join vs. std::path, exhaustive over
           short strings of '/', '.', letters, space, non-ASCII, backslash (no file system involved);
  K cases: the driver's canonicalize / read emulation vs. fs::canonicalize and parse_file on real trees with
           symbolic links (to directories, to files, dangling, looping), over a pool of hostile spellings;
  P cases: F cases (below) over a pool of hostile spellings of the including file and of the argument
           (./ ../ // trailing / and /. empty argument, spaces, non-ASCII, absolute, leading backslash, symlinks);
  F cases: duckscript::parser::parse_file vs. the extracted parse_file: every instruction with its
           line and source, or the error kind + line + file;
  R cases: run_script_file(main) vs. run_script(<inlined text computed by the extracted `inline`>):
           emitted arguments, final variables, errors seen by on_error; the positions reported by
           the file run are checked against the model's provenance, those of the text run against
           the index in the pasting.
Include cycles are never generated (known finding F12: stack overflow abort, C07)."""
import os
import vlib
from vlib import enc_str, dec_str

THEOREMS = ["C14_flat", "C14_paste", "C14_paste_defined", "C14_fuel", "C14_prov", "C14_prov_order",
            "C14_fail", "C14_fail_anywhere", "C14_nonvacuous",
            # path resolution: Include.v's `resolve` instantiated with the lexical model IncludePath.v
            "C14_parent_total", "C14_parent_prefix", "C14_parent_dir_file", "C14_trim_dir_clean", "C14_clean_dir_last",
            "C14_resolve_relative", "C14_resolve_relative_any", "C14_resolve_absolute", "C14_resolve_no_source",
            "C14_resolve_no_dir", "C14_resolve_root", "C14_resolve_no_parent", "C14_resolve_canon_fails",
            "C14_resolve_reads", "C14_push_absolute", "C14_parent_corners", "C14_push_corners",
            "C14_resolve_nonvacuous"]
FUEL = 7
DIRS = ["", "lib", "lib/deep", "lib/deep/er", "other", "my dir", "other/x y"]
MALFORMED = ['x = set "abc', 'emit \\q', '!', '!bogus a b', ':"lab" set', ':la\\b set 1', 'set "a"b',
             '!   ', 'out = "cmd" a']


class Tree:
    """a virtual directory tree + the emulation of the OS calls the pre-processor makes"""

    def __init__(self, root):
        self.root = root
        self.files = {}      # rel -> content
        self.links = {}      # rel -> target
        self.dirs = set()
        self.args = {}       # rel -> list of include arguments (decoded) used by its directives

    def add_dir(self, rel):
        while rel:
            self.dirs.add(rel)
            rel = os.path.dirname(rel)

    def kind(self, ap):
        if ap == self.root or self.root.startswith(ap.rstrip("/") + "/") or ap == "/":
            return "d"
        if not ap.startswith(self.root + "/"):
            return None
        rel = ap[len(self.root) + 1:]
        if rel in self.links:
            return "l"
        if rel in self.files:
            return "f"
        if rel in self.dirs:
            return "d"
        return None

    def canon(self, p):
        """std::fs::canonicalize with cwd = root; None when it fails (used by the acyclicity guard only: the model side
        uses the same algorithm in ocaml/c14_driver.ml, which the K cases compare with the OS)"""
        if p == "":
            return None
        must_dir = p.split("/")[-1] in ("", ".")
        if not p.startswith("/"):
            p = self.root + "/" + p
        todo = [c for c in p.split("/") if c not in ("", ".")]
        cur = []
        hops = 0
        while todo:
            c = todo.pop(0)
            if c == "..":
                if cur:
                    cur.pop()
                continue
            cur.append(c)
            k = self.kind("/" + "/".join(cur))
            if k is None:
                return None
            if k == "l":
                hops += 1
                if hops > 20:
                    return None
                rel = ("/" + "/".join(cur))[len(self.root) + 1:]
                tgt = self.links[rel]
                cur.pop()
                if tgt.startswith("/"):
                    cur = []
                todo = [c for c in tgt.split("/") if c not in ("", ".")] + todo
            elif k == "f" and todo:
                return None
        if must_dir and self.kind("/" + "/".join(cur)) == "f":
            return None
        return "/" + "/".join(cur)

    def rel_of(self, pathstring):
        c = self.canon(pathstring)
        if c is None or self.kind(c) != "f":
            return None
        return c[len(self.root) + 1:]

    def read(self, pathstring):
        r = self.rel_of(pathstring)
        return None if r is None else self.files[r]

    @staticmethod
    def parent(s):
        """PathBuf::parent for the strings that can become a source here"""
        t = s.rstrip("/")
        if "/" not in t:
            return ""
        h = t[:t.rindex("/")]
        return h if h else "/"

    def resolve(self, src, arg):
        par = self.parent(src)
        joined = arg if par == "" else par + ("" if par.endswith("/") else "/") + arg
        c = self.canon(joined)
        return c if c is not None else joined

    def acyclic(self):
        """defence in depth: the include graph over real files has no cycle (cycles abort the process: F12)"""
        edges = {}
        for rel, args in self.args.items():
            src = self.root + "/" + rel
            tg = set()
            for a in args:
                q = a if a.startswith("/") or a.startswith("\\") else self.resolve(src, a)
                r = self.rel_of(q)
                if r is not None:
                    tg.add(r)
            edges[rel] = tg
        state = {}

        def visit(n):
            if state.get(n) == 1:
                return False
            if state.get(n) == 2:
                return True
            state[n] = 1
            ok = all(visit(m) for m in edges.get(n, ()))
            state[n] = 2
            return ok
        return all(visit(n) for n in list(edges))

    def disk(self):
        ent = ["d" + enc_str(d) for d in sorted(self.dirs)]
        ent += ["f%s:%s" % (enc_str(p), enc_str(c)) for p, c in sorted(self.files.items())]
        ent += ["l%s:%s" % (enc_str(p), enc_str(t)) for p, t in sorted(self.links.items())]
        return " ".join(ent) if ent else "-"


def quote_arg(rng, a):
    if " " in a or a == "" or "\\" in a or rng.random() < 0.15:
        return '"' + a.replace("\\", "\\\\").replace('"', '\\"') + '"'
    return a


class Gen:
    def __init__(self, rng, root, opts):
        self.rng = rng
        self.t = Tree(root)
        self.o = opts
        self.n = 0
        self.height = {}          # completed files: rel -> height of its include tree
        self.planted = []
        self.stats = {"directives": 0, "multi": 0, "twice": 0, "abs": 0, "dotdot": 0, "symlink": 0,
                      "pos_first": 0, "pos_middle": 0, "pos_last": 0, "reuse": 0, "crlf": 0, "no_final_newline": 0}
        if rng.random() < 0.5:
            self.t.add_dir("lib")
            self.t.links["lnk"] = rng.choice(["lib", self.t.root + "/lib"])
        self.ids = 0

    def uid(self):
        self.ids += 1
        return self.ids

    def ref(self, frm_dir, target_rel):
        """a spelling of target_rel as an include argument inside a file of directory frm_dir"""
        rng, root = self.rng, self.t.root
        r = rng.random()
        if r < 0.18:
            self.stats["abs"] += 1
            return root + "/" + target_rel
        if r < 0.26:
            self.stats["abs"] += 1
            self.stats["dotdot"] += 1
            d = rng.choice([x for x in DIRS if x and " " not in x])
            self.t.add_dir(d)
            return root + "/" + d + "/" + "/".join([".."] * (d.count("/") + 1)) + "/" + target_rel
        if r < 0.34 and "lnk" in self.t.links and target_rel.startswith("lib/"):
            self.stats["symlink"] += 1
            up = "/".join([".."] * (frm_dir.count("/") + 1)) + "/" if frm_dir else ""
            return up + "lnk/" + target_rel[4:]
        rel = os.path.relpath(target_rel, frm_dir or ".")
        if ".." in rel:
            self.stats["dotdot"] += 1
        if rng.random() < 0.15:
            rel = "./" + rel
        return rel

    def body_units(self, n):
        """script lines in units that always terminate, whatever is pasted between two units and however
        often the file is pasted: set / emit / boom / forward goto / if-else / function + call.
        A unit is (lines, splittable): directives may be put inside an if/else block (block scanning must
        see through the pasted lines) but never inside a function body or between a goto and its label."""
        rng = self.rng
        out = []
        while len(out) < n:
            r = rng.random()
            k = self.uid()
            if r < 0.25:
                out.append((["v%d = set val%d" % (k, k)], False))
            elif r < 0.45:
                out.append((["emit %d ${v%d} %s" % (k, rng.randint(1, max(1, k)), rng.choice(["x", '"a b"', "%d" % k]))], False))
            elif r < 0.55:
                out.append((["boom %d" % k], False))
            elif r < 0.63:
                out.append((["goto :l%d" % k, "emit skipped %d" % k, ":l%d emit at %d" % (k, k)], False))
            elif r < 0.72:
                out.append((["if %s" % rng.choice(["true", "false", "${v%d}" % rng.randint(1, k)]), "emit then %d" % k,
                             "else", "emit else %d" % k, "end"], True))
            elif r < 0.78:
                out.append((["fn f%d" % k, "emit in f%d ${1}" % k, "return r%d" % k, "end", "o%d = f%d a%d" % (k, k, k)], False))
            elif r < 0.84:
                out.append(([rng.choice(["", "   ", "# comment %d" % k, "\t# tab comment", "!print p%d q" % k,
                                         "!include_files", "!include_files   # none"])], False))
            elif r < 0.90:
                out.append((["  %s  " % ("w%d = set \"quoted # not comment\" \\n" % k)], False))
            else:
                out.append((["emit end-of-body %d\r" % k if rng.random() < 0.3 else ":only%d" % k], False))
        return out

    def slots(self, units):
        """positions (unit index, offset inside the unit) where a line may be inserted"""
        res = []
        for ui, (ls, split) in enumerate(units):
            res.append((ui, 0))
            if split:
                res += [(ui, j) for j in range(1, len(ls))]
        res.append((len(units), 0))
        return res

    def new_name(self):
        self.n += 1
        d = self.rng.choice(DIRS[:5] if self.rng.random() < 0.8 else DIRS)
        self.t.add_dir(d)
        base = self.rng.choice(["inc%d.ds", "f%d.ds", "%d", "a b%d.ds"] if " " in d or self.rng.random() < 0.1
                               else ["inc%d.ds", "f%d.ds", "%d"]) % self.n
        return (d + "/" if d else "") + base

    def gen_file(self, depth, rel=None):
        """creates one file (and, recursively, what it includes); returns its rel path"""
        rng, o = self.rng, self.o
        rel = rel or self.new_name()
        frm = os.path.dirname(rel)
        units = self.body_units(rng.randint(0, 5))
        inserts = []
        args_used = []
        height = 1
        ndir = 0
        if depth < o["depth"]:
            ndir = rng.choice([0, 1, 1, 1, 2]) if depth > 0 else rng.choice([1, 1, 2, 3])
        for _ in range(ndir):
            nfiles = rng.randint(1, o["fan"])
            targets = []
            for _ in range(nfiles):
                done = [r for r, h in self.height.items() if depth + 1 + h <= o["depth"] + 1]
                if targets and rng.random() < 0.2:
                    tgt = rng.choice(targets)                       # the same file twice
                    self.stats["twice"] += 1
                elif done and rng.random() < 0.25:
                    tgt = rng.choice(done)                          # a completed file: cannot close a cycle
                    self.stats["reuse"] += 1
                else:
                    tgt = self.gen_file(depth + 1)
                targets.append(tgt)
                height = max(height, 1 + self.height[tgt])
            args = [self.ref(frm, tg) for tg in targets]
            plant = o.get("plant")
            if plant == "missing" and rng.random() < 0.3 and not self.planted:
                miss = rng.choice(["nope.ds", "lib/none.ds", "../gone.ds", self.t.root + "/absent.ds", "lib"])
                if miss == "lib":
                    self.t.add_dir((frm + "/" if frm else "") + "lib")
                args.insert(rng.randint(0, len(args)), miss)
                self.planted.append(("missing", rel, miss))
            args_used += args
            text = "!include_files" + "".join(rng.choice([" ", " ", "  "]) + quote_arg(rng, a) for a in args)
            if rng.random() < 0.2:
                text = rng.choice(["  ", "\t"]) + text + rng.choice(["  ", " # why", "\t"])
            pos = rng.choice(["first", "middle", "last"])
            self.stats["pos_" + pos] += 1
            sl = self.slots(units)
            inserts.append((sl[0] if pos == "first" else sl[-1] if pos == "last" else rng.choice(sl), text))
            self.stats["directives"] += 1
            if len(args) > 1:
                self.stats["multi"] += 1
        if o.get("plant") == "malformed" and rng.random() < 0.35 and not self.planted:
            bad = rng.choice(MALFORMED)
            inserts.append((rng.choice(self.slots(units)), bad))
            self.planted.append(("malformed", rel, bad))
        lines = []
        for ui in range(len(units) + 1):
            ls = list(units[ui][0]) if ui < len(units) else []
            for off in range(len(ls) + 1):
                lines += [t for (sl, t) in inserts if sl == (ui, off)]
                if off < len(ls):
                    lines.append(ls[off])
        if rng.random() < 0.15:
            nl = "\r\n"
            self.stats["crlf"] += 1
        else:
            nl = "\n"
        text = nl.join(lines)
        if lines and rng.random() < 0.7:
            text += nl
        elif lines:
            self.stats["no_final_newline"] += 1
        self.t.files[rel] = text
        self.t.args[rel] = args_used
        self.height[rel] = height
        return rel


def make_case(rng, root, opts):
    g = Gen(rng, root, opts)
    main_rel = g.gen_file(0, rel=rng.choice(["main.ds", "main.ds", "lib/main.ds", "other/start.ds", "my dir/main.ds"]))
    g.t.add_dir(os.path.dirname(main_rel))
    r = rng.random()
    if r < 0.4:
        main = root + "/" + main_rel
    elif r < 0.75:
        main = main_rel
    elif r < 0.85:
        main = "./" + main_rel
    elif r < 0.95 or not main_rel.startswith("lib/") or "lnk" not in g.t.links:
        main = root + "/other/../" + main_rel
        g.t.add_dir("other")
    else:
        main = "lnk/" + main_rel[4:]
    if opts.get("plant") == "nomain":
        main = rng.choice(["missing-main.ds", root + "/lib/missing.ds"])
        g.planted.append(("missing", None, main))
    return g, main


class Fixed:
    """a hand-built case with the same interface as Gen"""

    def __init__(self, tree, planted):
        self.t = tree
        self.planted = planted
        self.stats = {}


def small_scope(base, tag):
    """EXHAUSTIVE small scope: main.ds (2 lines) with one directive at every position, listing every one of five
    argument lists over lib/a.ds (2 lines) and lib/b.ds (1 line + a directive including a.ds, before or after its
    line), relative and absolute spellings, files ending with and without a newline, and every single planted
    problem: a missing file at every position of main's directive, lib/a.ds absent, a malformed line at every
    line position of every file."""
    out = []
    n = 0
    arglists = [["a"], ["a", "b"], ["a", "a"], ["b", "a"], ["b"]]
    plants = [None, ("absent-a",)] + [("missing", i) for i in range(3)] + \
             [("bad", f, i) for f, m in (("main.ds", 4), ("lib/a.ds", 3), ("lib/b.ds", 3)) for i in range(m)]
    for pos in range(3):
        for al in arglists:
            for style in ("rel", "abs"):
                for bpos in (0, 1):
                    for plant in plants:
                        for end in ("\n", ""):
                            if plant and plant[0] == "missing" and plant[1] > len(al):
                                continue
                            n += 1
                            root = "%s/%s_x%d" % (base, tag, n)
                            t = Tree(root)
                            t.add_dir("lib")
                            sp = (lambda f: root + "/lib/" + f + ".ds") if style == "abs" else (lambda f: "lib/" + f + ".ds")
                            margs = [sp(f) for f in al]
                            if plant and plant[0] == "missing":
                                margs.insert(plant[1], "lib/zz.ds" if style == "rel" else root + "/lib/zz.ds")
                            files = {
                                "main.ds": ["emit m1", "boom 1"],
                                "lib/a.ds": ["va = set A", "boom 7"],
                                "lib/b.ds": ["emit b1 ${va}"],
                            }
                            files["main.ds"].insert(pos, "!include_files " + " ".join(margs))
                            bargs = [root + "/lib/a.ds" if style == "abs" else "a.ds"]
                            files["lib/b.ds"].insert(bpos, "!include_files " + bargs[0])
                            if plant and plant[0] == "bad":
                                files[plant[1]].insert(plant[2], 'x = set "unterminated')
                            if plant and plant[0] == "absent-a":
                                del files["lib/a.ds"]
                            for f, ls in files.items():
                                t.files[f] = "\n".join(ls) + end
                            t.args = {"main.ds": margs, "lib/b.ds": bargs}
                            out.append((Fixed(t, [plant] if plant else []), "main.ds" if style == "rel" else root + "/main.ds"))
    return out


# ---- path resolution: unit-level streams ------------------------------------------------------------------------
def unit_cases(thorough):
    """U lines: every source string of length <= 6 (thorough: 7) over '/', '.', 'a' with 8 arguments, every source
    and argument of length <= 3 (4) over '/', '.', 'a', ' ', 'é', backslash"""
    import itertools
    n1, n2 = (7, 4) if thorough else (6, 3)
    srcs = [""] + ["".join(t) for n in range(1, n1 + 1) for t in itertools.product("/.a", repeat=n)]
    args = ["x", "", "/x", "./x", "../x", "x/", "//", "."]
    out = [(s_, a) for s_ in srcs for a in args]
    small = [""] + ["".join(t) for n in range(1, n2 + 1) for t in itertools.product("/.a é\\", repeat=n)]
    out += [(s_, a) for s_ in small for a in small[:60]]
    return out


P_DIRS = ["lib", "lib/deep", "my dir", "ünï"]


def path_tree(root, variant):
    """the tree of the K and P cases: t.ds / u.ds in every directory, symbolic links to directories (relative and
    absolute target), to a file, dangling and looping"""
    t = Tree(root)
    for d in P_DIRS:
        t.add_dir(d)
    for k, d in enumerate([""] + P_DIRS):
        pre = d + "/" if d else ""
        t.files[pre + "t.ds"] = "emit t%d\n" % k
        t.files[pre + "u.ds"] = "emit u%d\nboom u%d\n" % (k, k)
    t.files["\\t.ds"] = "emit backslash\n"
    t.files[" t.ds"] = "emit leading-space\n"
    t.links["lnk"] = "lib" if variant % 2 == 0 else root + "/lib"
    t.links["dl"] = "lib/deep"
    t.links["lf"] = "lib/t.ds"
    t.links["dang"] = "nowhere/x"
    t.links["loop"] = "loop"
    return t


def k_cases(base, tag):
    """K lines: (tree, [paths]) — prefixes x targets x suffixes of hostile spellings"""
    out = []
    for v in (0, 1):
        root = "%s/%s_k%d" % (base, tag, v)
        t = path_tree(root, v)
        up = "../" + os.path.basename(root) + "/"
        prefixes = ["", "./", root + "/", root + "//", "lib/../", "lib/deep/../../", "nodir/../", "lnk/../", "dl/../", up]
        targets = ["t.ds", "lib/t.ds", "lib//t.ds", "lib/./t.ds", "lib/deep/t.ds", "lnk/t.ds", "lnk/deep/t.ds", "dl/t.ds", "lf",
                   "dang", "loop", "loop/x", "my dir/t.ds", "ünï/t.ds", "lib", "nope.ds", "lib/nope/t.ds", "t.ds/x", "\\t.ds",
                   " t.ds", "..", "."]
        suffixes = ["", "/", "/.", "/..", "//", "/./"]
        paths = ["", ".", "..", "/", "//", root, root + "/", "/nonexistent-c14/t.ds"]
        paths += [a + b + c for a in prefixes for b in targets for c in suffixes]
        out.append((t, paths))
    return out


MAIN_RELS = ["m.ds", "lib/m.ds", "lib/deep/m.ds", "my dir/m.ds", "ünï/m.ds"]


def main_spellings(root, rel):
    d, b = os.path.dirname(rel), os.path.basename(rel)
    dd = d + "/" if d else ""
    sp = [rel, "./" + rel, root + "/" + rel, dd + "/" + b if d else ".//" + b, dd + "./" + b, "lib/../" + rel,
          root + "/lib/../" + rel, rel.replace("/", "//"), "../" + os.path.basename(root) + "/" + rel, root + "//" + rel]
    if rel.startswith("lib/"):
        sp.append("lnk/" + rel[4:])
    if rel.startswith("lib/deep/"):
        sp.append("dl/" + rel[9:])
    return sp


def include_args(root):
    return ["t.ds", "./t.ds", "../t.ds", "deep/t.ds", "deep//t.ds", "deep/../t.ds", "./deep/./t.ds", "lib/t.ds", "../lib/t.ds",
            "t.ds/", "t.ds/.", "", ".", "..", "./", "../", "missing.ds", "../missing.ds", "nodir/../t.ds", "nodir/t.ds",
            root + "/lib/t.ds", root + "/lib/../lib/t.ds", root + "//lib//t.ds", "\\t.ds", "my dir/t.ds", "../my dir/t.ds",
            "ünï/t.ds", "../ünï/t.ds", "lib", "deep", "lnk/t.ds", "../lnk/deep/t.ds", "dl/../t.ds", "../dl/../t.ds", " t.ds",
            "t.ds ", "../../t.ds", "lf", "../lf", "dang", "loop"]


def p_cases(base, tag, rng, thorough):
    """P cases: one including file m.ds (3 lines, the directive in the middle) at every one of 5 places x every spelling
    of its path x every include argument of the pool (quick: 3 spellings per (place, argument), chosen so that every
    spelling is used); lib/t.ds itself includes deep/u.ds (a nested include whose source is the canonical path)"""
    out = []
    n = 0
    for rel in MAIN_RELS:
        n_sp = len(main_spellings("/r", rel))
        for ai in range(len(include_args("/r"))):
            ks = range(n_sp) if thorough else sorted(set([(ai + j * 4) % n_sp for j in range(3)]))
            for k in ks:
                n += 1
                root = "%s/%s_p%d" % (base, tag, n)
                t = path_tree(root, n)
                arg = include_args(root)[ai]
                t.files["lib/t.ds"] = "emit t1\n!include_files deep/u.ds\n"
                t.files[rel] = "emit before\n!include_files %s\nboom after\n" % quote_arg(rng, arg)
                t.args = {rel: [arg], "lib/t.ds": ["deep/u.ds"]}
                out.append((Fixed(t, [("spelling", rel, arg)]), main_spellings(root, rel)[k]))
    return out



def case_line(kind, tree, main, extra):
    return "\t".join([kind, enc_str(tree.root), enc_str(main), tree.disk()] + extra)


def parse_result(s):
    """OK instr... | ERR kind line src  ->  ('OK', [(line, src, type)...]) | ('ERR', kind, line, src)"""
    f = s.split(" ")
    if f[0] == "OK":
        return ("OK", [tuple(x.split(";", 2)) for x in f[1:]])
    return tuple(f)


def run(ck):
    ck.gen_from_source()
    ck.coq_build(["props/C14.vo", "props/C14b.vo", "extract/C14_extract.vo"])
    ck.print_assumptions(["DSP.C14", "DSP.C14b"], ["DSP.C14." + t for t in THEOREMS] +
                         # the run-level corollary, proved on the runner model (RunnerErase.v): a run depends on the
                         # instructions only through `erase`, positions excepted
                         ["DSP.C14b.C14_run_erase", "DSP.C14b.C14_run_pre_to_empty"])
    ck.source_tie("parser")
    ck.source_tie("include")
    ck.hygiene()
    ck.ocaml_build()
    ck.harness_build(["c14"])
    model_ok = not any(b.startswith("ocaml") for b in ck.broken) and os.path.exists(
        os.path.join(vlib.ROOT, "ocaml", "bin", "c14_model"))
    thorough = ck.tier == "thorough"
    rng = ck.rng
    base = os.path.realpath(os.path.join(vlib.CACHE, "c14"))
    os.makedirs(base, exist_ok=True)
    tag = "s%d_%d" % (ck.seed, os.getpid())

    n_cases = 6000 if thorough else 1500
    cases = small_scope(base, tag)
    n_small = len(cases)
    pc = [c for c in p_cases(base, tag, rng, thorough) if c[0].t.acyclic()]
    cases += pc
    n_path = len(pc)
    n_fixed = len(cases)
    dropped_cyclic = 0
    for k in range(n_cases):
        r = rng.random()
        opts = {"depth": rng.choice([1, 2, 3, 4, 4]), "fan": rng.choice([1, 2, 3, 3])}
        if r < 0.18:
            opts["plant"] = "missing"
        elif r < 0.36:
            opts["plant"] = "malformed"
        elif r < 0.38:
            opts["plant"] = "nomain"
        root = "%s/%s_%d" % (base, tag, k)
        g, main = make_case(rng, root, opts)
        if not g.t.acyclic():      # cannot happen by construction (only completed files are re-used)
            dropped_cyclic += 1
            continue
        cases.append((g, main))
    f_lines = [case_line("F", g.t, main, [str(FUEL)]) for g, main in cases]

    found = False
    cov = {"evaluations": 0, "distinct_nontrivial": 0}
    if model_ok:
        m_f = ck.model(f_lines)
        i_f = ck.impl(f_lines, timeout=900)
        r_idx, r_lines = [], []
        dist = {"ok": 0, "err": {}, "instructions": 0, "inlined": 0, "files_per_case": {}, "include_depth": {}}
        nontriv = set()
        agg = {}
        for k, ((g, main), m, i) in enumerate(zip(cases, m_f, i_f)):
            for s, v in g.stats.items():
                agg[s] = agg.get(s, 0) + v
            nf = str(len(g.t.files))
            dist["files_per_case"][nf] = dist["files_per_case"].get(nf, 0) + 1
            if isinstance(g, Gen):
                h = str(max(g.height.values()) if g.height else 0)
                dist["include_depth"][h] = dist["include_depth"].get(h, 0) + 1
            mf = m.split("\t")
            bad = None
            if len(mf) != 3:
                bad = "model output malformed"
            elif mf[0] != i:
                bad = "parse_file: model and implementation disagree"
            elif mf[2] not in ("T T", "T -"):
                bad = "extracted model disagrees with its proved specification (%s)" % mf[2]
            if bad is None:
                pr = parse_result(mf[0])
                if pr[0] == "OK":
                    dist["ok"] += 1
                    dist["instructions"] += len(pr[1])
                    srcs = set(x[1] for x in pr[1])
                    if len(srcs) >= 2:
                        nontriv.add(mf[0])
                else:
                    dist["err"][pr[1]] = dist["err"].get(pr[1], 0) + 1
                    nontriv.add(mf[0])
                if mf[1] != "N":
                    dist["inlined"] += 1
                    r_idx.append(k)
                    r_lines.append("\t".join(["R", enc_str(g.t.root), enc_str(main), g.t.disk(), mf[1][1:]]))
            else:
                found = True
                if len(ck.violations) < 5:
                    root = g.t.root
                    ck.violation({
                        "kind": bad, "seed": ck.seed, "case_index": k, "main": main, "root": root,
                        "files": g.t.files, "symlinks": g.t.links, "dirs": sorted(g.t.dirs),
                        "planted": g.planted,
                        "model": mf[0].replace(enc_str(root + "/"), "<root>/."), "implementation": i.replace(enc_str(root + "/"), "<root>/."),
                        "model_raw": m, "implementation_raw": i, "wire": f_lines[k],
                        "theorems": ["C14_flat", "C14_paste", "C14_prov", "C14_fail"],
                        "replay_cmd": "printf '%%s\\n' '<wire>' | .cache/cargo-target/release/c14   (and | ocaml/bin/c14_model)"})
        # second pass: run the file vs. run the text inlined by the extracted model
        i_r = ck.impl(r_lines, timeout=900) if r_lines else []
        run_stats = {"runs": len(r_lines), "ok": 0, "err": 0, "boom_positions_checked": 0, "emitted": 0, "timeout_both": 0}
        for k, out in zip(r_idx, i_r):
            g, main = cases[k]
            parts = out.split("\t")
            bad = None
            if len(parts) != 2:
                bad = "run output malformed: " + out[:200]
            else:
                a, b = parts[0].split("|"), parts[1].split("|")
                pr = parse_result(m_f[k].split("\t")[0])
                if len(a) != 4 or len(b) != 4:
                    bad = "run output malformed"
                elif a[0] == "TIMEOUT" and b[0] == "TIMEOUT":
                    run_stats["timeout_both"] += 1      # a generated script that loops: inconclusive, counted
                    continue
                elif a[0].split(" ")[:2] != b[0].split(" ")[:2] or a[1] != b[1] or a[2] != b[2]:
                    bad = "run_script_file and run_script(inlined text) behave differently"
                else:
                    ea = [x.split("@") for x in a[3].split(",")] if a[3] else []
                    eb = [x.split("@") for x in b[3].split(",")] if b[3] else []
                    if [x[0] for x in ea] != [x[0] for x in eb]:
                        bad = "different errors reported to on_error"
                    elif pr[0] == "OK":
                        ins = pr[1]
                        for (msg, line, src) in ea:
                            t = dec_str(msg)
                            if not t.startswith("boom:"):
                                continue
                            want = "S;N;N;S%s;A%s" % (enc_str("boom"), enc_str(t[5:]))
                            where = set((x[0], x[1]) for x in ins if x[2] == want)
                            run_stats["boom_positions_checked"] += 1
                            if (line, "S" + src) not in where:
                                bad = "error inside included code reported at %s@%s, provenance says %s" % (line, src, sorted(where))
                        for (msg, line, src) in eb:
                            t = dec_str(msg)
                            if not t.startswith("boom:"):
                                continue
                            want = "S;N;N;S%s;A%s" % (enc_str("boom"), enc_str(t[5:]))
                            if not (line.isdigit() and 1 <= int(line) <= len(ins) and ins[int(line) - 1][2] == want):
                                bad = "pasted text: error at line %s is not the %s-th instruction of the file parse" % (line, line)
                if bad is None:
                    run_stats["ok" if a[0] == "OK" else "err"] += 1
                    run_stats["emitted"] += a[1].count(",") + 1 if a[1] else 0
            if bad:
                found = True
                if len(ck.violations) < 5:
                    ck.violation({
                        "kind": bad, "seed": ck.seed, "case_index": k, "main": main, "root": g.t.root,
                        "files": g.t.files, "symlinks": g.t.links, "dirs": sorted(g.t.dirs),
                        "inlined_text": dec_str(r_lines[r_idx.index(k)].split("\t")[4]),
                        "file_run": parts[0] if parts else out, "text_run": parts[1] if len(parts) > 1 else "",
                        "model_parse": m_f[k].split("\t")[0], "wire": r_lines[r_idx.index(k)],
                        "theorems": ["C14_paste", "C14_prov", "C14_prov_order"],
                        "replay_cmd": "printf '%%s\\n' '<wire>' | .cache/cargo-target/release/c14"})
        # unit-level streams of the path model: U (lexical model vs std::path), K (OS emulation of the driver vs the OS)
        u_cases = unit_cases(thorough)
        u_lines = ["U\t%s\t%s" % (enc_str(a), enc_str(b)) for a, b in u_cases]
        m_u, i_u = ck.model(u_lines), ck.impl(u_lines)
        u_stats = {"cases": len(u_lines), "parent_none": 0, "parent_empty": 0, "parent_trimmed": 0, "distinct_results": 0}
        u_seen = set()
        for (a, b), m, i in zip(u_cases, m_u, i_u):
            u_seen.add(m)
            mf = m.split("\t")
            if len(mf) == 3:
                if mf[0] == "N":
                    u_stats["parent_none"] += 1
                elif mf[0] == "Se":
                    u_stats["parent_empty"] += 1
                elif "/" in a and dec_str(mf[0][1:]) != a[:a.rindex("/")]:
                    u_stats["parent_trimmed"] += 1
            if m != i or len(mf) != 3 or "FUEL" in m:
                found = True
                if len(ck.violations) < 5:
                    ck.violation({
                        "kind": "lexical path model (Path::parent / PathBuf::push / the pre-processor's join) vs std::path",
                        "source": a, "argument": b, "fields": "parent(source), parent(source).push(argument) or argument, source.push(argument)",
                        "model": [dec_str(x[1:]) if x[:1] == "S" else x for x in mf[:1]] + [dec_str(x) for x in mf[1:]],
                        "implementation": i, "model_raw": m, "wire": "U\t%s\t%s" % (enc_str(a), enc_str(b)), "seed": ck.seed,
                        "theorems": ["C14_parent_dir_file", "C14_resolve_relative", "C14_parent_corners", "C14_push_corners"],
                        "replay_cmd": "printf '%s\\n' '<wire>' | .cache/cargo-target/release/c14   (and | ocaml/bin/c14_model)"})
        u_stats["distinct_results"] = len(u_seen)
        kc = k_cases(base, tag)
        k_lines = ["\t".join(["K", enc_str(t.root), "e", t.disk(), vlib.enc_list(paths)]) for t, paths in kc]
        m_k, i_k = ck.model(k_lines), ck.impl(k_lines)
        k_stats = {"trees": len(kc), "paths": 0, "canonical": 0, "readable": 0, "canon_fails": 0}
        for (t, paths), m, i in zip(kc, m_k, i_k):
            ms, is_ = m.split("|"), i.split("|")
            if len(ms) != len(paths) or len(is_) != len(paths):
                ms, is_ = [m] * len(paths), [i] * len(paths)
            for pth, a, b in zip(paths, ms, is_):
                k_stats["paths"] += 1
                if a.startswith("S"):
                    k_stats["canonical"] += 1
                else:
                    k_stats["canon_fails"] += 1
                if ";OK" in a:
                    k_stats["readable"] += 1
                if a != b:
                    found = True
                    if len(ck.violations) < 5:
                        ck.violation({
                            "kind": "the check's emulation of canonicalize / read_text_file (ocaml/c14_driver.ml) vs the OS "
                                    "(an error of the check's trusted base or an OS that resolves paths differently)",
                            "path": pth.replace(t.root, "<root>"), "root": t.root, "files": sorted(t.files), "symlinks": t.links,
                            "emulation": a.replace(enc_str(t.root), "<root>"), "os": b.replace(enc_str(t.root), "<root>"),
                            "wire": "\t".join(["K", enc_str(t.root), "e", t.disk(), vlib.enc_list([pth])]), "seed": ck.seed,
                            "theorems": ["C14_resolve_reads"],
                            "replay_cmd": "printf '%s\\n' '<wire>' | .cache/cargo-target/release/c14   (and | ocaml/bin/c14_model)"})
        dist["path_unit"] = {"U": u_stats, "K": k_stats, "P_cases": n_path,
                             "P_what": p_cases.__doc__, "U_what": unit_cases.__doc__, "K_what": k_cases.__doc__}
        dist["generator"] = agg
        dist["run"] = run_stats
        cov = {
            "evaluations": len(f_lines) + len(r_lines) + len(u_lines) + k_stats["paths"],
            "distinct_nontrivial": len(nontriv),
            "rule": "random acyclic include trees (depth <= 4, fan-out <= 3, nested directories incl. names with spaces, "
                    "relative / ./ / .. / absolute / absolute-with-.. / through-a-symlinked-directory arguments, a file listed "
                    "twice, completed files re-used, directives first/middle/last, several per file, CRLF and missing final "
                    "newline, planted missing files / directories-as-files / malformed lines, missing main); non-trivial = distinct "
                    "parse result that either is an error or has instructions from >= 2 sources",
            "exhaustive": True,
            "exhaustive_part": {"small_scope_cases": n_small, "what": small_scope.__doc__,
                                "path_spelling_cases": n_path, "path_unit_cases": len(u_lines), "os_emulation_paths": k_stats["paths"]},
            "samples": [{"main": cases[j][1].replace(cases[j][0].t.root, "<root>"),
                         "files": {p: c for p, c in list(cases[j][0].t.files.items())[:4]}} for j in (0, n_small, n_fixed, n_fixed + 1)],
            "distribution": dist,
            "dropped_cyclic_by_assertion": dropped_cyclic,
        }
    else:
        cov = {"evaluations": 0, "distinct_nontrivial": 0, "rule": "model did not build", "samples": []}
    ck.coverage.update(cov)
    # nothing may be left behind
    for d in os.listdir(base):
        if d.startswith(tag + "_"):
            vlib.sh(["rm", "-rf", os.path.join(base, d)])
    ck.report_broken(found)
    ck.assumptions += [
        "path resolution is the lexical Coq model IncludePath.v (Path::parent, PathBuf::push for Unix paths, written after "
        "library/std/src/path.rs and compared exhaustively on short strings with std::path by the U cases); what stays a Section "
        "variable is `canon` (std::fs::canonicalize: symbolic links, the current directory, existence) and `fs` (file contents): "
        "both are emulated by ocaml/c14_driver.ml on the case's directory tree and that emulation is compared with the OS by the K cases",
        "paths are Rust Strings (valid UTF-8): to_string_lossy is the identity; a canonical path that is not UTF-8 is not modelled",
        "read_text_file failing for any reason (missing, directory, invalid UTF-8, permissions) is fs p = None",
        "include cycles are excluded (hypothesis `within f p`; on the real code a cycle overflows the stack: finding F12, property C07)",
        "`run depends on instructions only through erase` is proved on the runner model (C14b: C14_run_erase) and covered by the R cases (run_script_file vs run_script on the pasted text)",
        "Unix paths only (separator '/', no prefixes); of Windows only the `starts_with('\\\\')` test is modelled",
    ]
