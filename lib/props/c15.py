"""C15 — the command registry is a consistent name/alias map.

Formal side: props/C15.v (model Registry.v of Commands::{new,set,get,exists,get_for_use,
get_all_command_names,remove} and of alias / unalias / remove_command / is_command_defined / fn;
specification RegistrySpec.v; proofs RegistryProof.v).
Correspondence run (extracted model vs the real code):
  (a) EVERY history of set/get/exists/get_for_use/remove/get_all_command_names up to length 4
      (thorough: 5) over names {a,b,c,x} and alias sets within {x,y,a}, through the public
      `Commands` API with dummy commands: every result and the dump of both pub maps;
  (b) random longer histories over a wider universe (Unicode / empty names, duplicate aliases,
      a name among its own aliases);
  (c) random and small exhaustive histories of alias / unalias / remove_command /
      is_command_defined / fn definitions on a real SDK context (one script per step), the registry
      dumped after every step restricted to a closed key set.
On top of model-vs-implementation, the invariant of C15_inv is evaluated directly on every dump the
implementation produced, and the extracted map-level specification (spec_set / spec_remove) is
evaluated next to the model in the driver (SPECDIFF)."""
import itertools
import vlib
from vlib import enc_str, dec_str

THEOREMS = [
    "C15_inv", "C15_inv_step", "C15_no_dangling", "C15_refuse", "C15_refuse_iff", "C15_accept_spec",
    "C15_reach", "C15_reach_frame", "C15_reach_persistent_refuted", "C15_alias_stolen_refuted",
    "C15_remove", "C15_remove_spec", "C15_remove_false", "C15_remove_iff_exists", "C15_remove_gone",
    "C15_get_declares", "C15_observers_pure", "C15_names", "C15_names_sorted",
    "C15_script_inv", "C15_script_change", "C15_script_refuse", "C15_F11_nonvacuous",
]
NAMES = ["a", "b", "c", "x"]
ALS = ["x", "y", "a"]
KEYS = ["a", "b", "c", "x", "y"]
EXE = ".cache/cargo-target/release/c15"


def op_set(n, al):
    return " ".join(["s", enc_str(n)] + [enc_str(a) for a in al])


def op1(k, key):
    return k + " " + enc_str(key)


def mutators():
    ops = []
    for n in NAMES:
        for r in range(len(ALS) + 1):
            for sub in itertools.combinations(ALS, r):
                ops.append(op_set(n, list(sub)))
    ops += [op1("r", k) for k in KEYS]
    return ops


def observers():
    return [op1(c, k) for c in "geu" for k in KEYS] + ["n"]


def show_op(o):
    t = o.split(" ")
    if t[0] == "s":
        return "set %s[%s]" % (dec_str(t[1]), ",".join(dec_str(x) for x in t[2:]))
    if t[0] == "n":
        return "get_all_command_names"
    return {"g": "get", "e": "exists", "u": "get_for_use", "r": "remove", "a": "alias", "d": "is_command_defined",
            "f": "fn"}.get(t[0], t[0]) + " " + " ".join(dec_str(x) for x in t[1:])


def show_sop(o):
    t = o.split(" ")
    return {"a": "alias", "u": "unalias", "r": "remove_command", "d": "is_command_defined", "f": "fn", "h": "<host> Commands::set"}[t[0]] + " " + \
        " ".join(dec_str(x) for x in t[1:])


def parse_dump(d):
    """-> (cmds {name: [aliases]}, aliases {alias: name}) or None"""
    if not d.startswith("D") or "|" not in d or "!" in d:
        return None
    cs, al = d[1:].split("|")
    cmds, als = {}, {}
    for e in cs.split(";") if cs else []:
        n, a = e.split("/")
        cmds[n] = a.split(",") if a else []
    for e in al.split(";") if al else []:
        a, n = e.split(">")
        als[a] = n
    return cmds, als


def inv_holds(d):
    p = parse_dump(d)
    if p is None:
        return False
    cmds, als = p
    return all(n in cmds and a in cmds[n] for a, n in als.items())


def run(ck):
    ck.gen_from_source()
    ck.coq_build(["props/C15.vo", "extract/C15_extract.vo"])
    ck.print_assumptions(["DSP.C15"], ["DSP.C15." + t for t in THEOREMS])
    ck.source_tie("registry")
    ck.source_tie("regcmds")
    ck.source_tie("regfn")
    ck.hygiene()
    ck.ocaml_build()
    ck.harness_build(["c15"])
    model_ok = not any(b.startswith("ocaml") for b in ck.broken) and vlib.os.path.exists(
        vlib.os.path.join(vlib.ROOT, "ocaml", "bin", "c15_model"))
    thorough = ck.tier == "thorough"
    rng = ck.rng
    found = [False]
    stats = {"cases": 0, "sequences": 0, "nontrivial": set(), "refused": 0, "removed": 0, "inv_checked": 0,
             "kinds": {}, "max_len": 0}
    samples = []

    def report(kind, line, m, i, extra=None):
        if len(ck.violations) >= 5:
            return
        found[0] = True
        f = line.split("\t")
        if f[0] == "P":
            human = [show_sop(o) for o in f[4:]]
        else:
            human = [show_op(o) for o in (f[2:] if f[0] == "F" else f[1:])]
        rep = {"kind": kind, "history": human, "wire": line, "model": m, "implementation": i, "seed": ck.seed,
               "theorems": ["C15_inv", "C15_refuse", "C15_reach", "C15_remove", "C15_script_change"],
               "replay_cmd": "printf '%s\\n' | " % line.replace("\t", "\\t") + EXE + "   # and | ocaml/bin/c15_model"}
        if extra:
            rep.update(extra)
        ck.violation(rep)

    def shrink(line):
        """drop operations while both sides still disagree"""
        f = line.split("\t")
        if f[0] == "P":
            head, ops = f[:4], f[4:]
        elif f[0] == "A":
            head, ops = f[:1], f[1:]
        else:
            return line
        for _ in range(60):
            cands = ["\t".join(head + ops[:k] + ops[k + 1:]) for k in range(len(ops))] if len(ops) > 1 else []
            if not cands:
                break
            m = ck.model(cands)
            i = ck.impl(cands)
            bad = [k for k in range(len(cands)) if m[k] != i[k]]
            if not bad:
                break
            ops = ops[:bad[0]] + ops[bad[0] + 1:]
        return "\t".join(head + ops)

    def account(line, m):
        f = m.split("\t")
        stats["cases"] += 1
        if "E" in f or "T" in f:
            stats["nontrivial"].add(line if len(stats["nontrivial"]) < 2000000 else hash(line))
        stats["refused"] += f.count("E")
        stats["removed"] += f.count("T")

    def compare(lines, what):
        """run both sides on the lines, compare, check the invariant on the implementation's dumps"""
        if not lines or len(ck.violations) >= 5:
            return
        m = ck.model(lines)
        i = ck.impl(lines)
        stats["kinds"][what] = stats["kinds"].get(what, 0) + len(lines)
        for k, line in enumerate(lines):
            account(line, m[k])
            mk, ik = m[k], i[k]
            if "SPECDIFF" in mk:
                report("extracted model vs extracted map-level spec (extraction sanity)", line, mk, ik)
                continue
            bad_inv = [d for d in ik.split("\t") if d.startswith("D") and not inv_holds(d)]
            stats["inv_checked"] += sum(1 for d in ik.split("\t") if d.startswith("D"))
            if mk != ik:
                if line.startswith("F\t"):
                    # locate the failing extension, then shrink
                    f = line.split("\t")
                    exp = ["\t".join(["A"] + f[2:] + [e]) for e in f[1].split(";")]
                    me, badk = ck.model(exp), []
                    for _ in range(6):      # a hash-order dependent difference may need several tries
                        ie = ck.impl(exp)
                        badk = [j for j in range(len(exp)) if me[j] != ie[j]]
                        if badk:
                            break
                    if badk:
                        s = shrink(exp[badk[0]])
                        ms, is_ = ck.model([s])[0], ck.impl([s])[0]
                        report("model-vs-implementation", s, ms, is_, {"found_in": line[:300]})
                    else:
                        report("model-vs-implementation (fan-out hash)", line, mk, ik)
                else:
                    s = shrink(line)
                    ms, is_ = ck.model([s])[0], ck.impl([s])[0]
                    report("model-vs-implementation", s, ms, is_, {"found_in": line[:300]} if s != line else None)
            elif bad_inv:
                report("invariant C15_inv fails on the implementation's registry", line, mk, ik, {"dump": bad_inv[0]})
            if len(ck.violations) >= 5:
                return

    n_exh = 0
    if model_ok:
        MUT, OBS = mutators(), observers()
        ALL = MUT + OBS
        ext = ";".join(ALL)
        # --- corpus: witnesses of past findings and of the mechanisms the property names
        corpus = [
            ["s a x", "s x", "s c x", "r a", "g x", "n"],                       # F11
            ["s a x", "s b y x", "g y", "e b", "n"],                            # partial registration
            ["s a", "s b a", "g a", "r a", "g a", "e b"],                       # alias shadows a name
            ["s x", "s a x", "r x", "g x", "e x"],                              # removal through a shadowing alias
            ["s a a", "g a", "r a", "n"],                                       # a name among its own aliases
            ["s a x x", "r x", "n"],
        ]
        clines = []
        for c in corpus:
            ops = []
            for o in c:
                t = o.split(" ")
                ops.append(op_set(t[1], t[2:]) if t[0] == "s" else ("n" if t[0] == "n" else op1(t[0], t[1])))
            clines.append("A\t" + "\t".join(ops))
        compare(clines, "corpus")
        samples.append([show_op(o) for o in clines[0].split("\t")[1:]])

        # --- (a) exhaustive: every history of length <= 4 over the full alphabet = every prefix of
        # length <= 3 with every operation appended (fan-out); thorough: every mutator prefix of length 4
        # with every operation appended (observers inside a prefix do not change the state — that fact is
        # itself compared on every state reached, because each observer extension's dump is in the hash)
        pref = [[]]
        for n in range(1, 4):
            pref += [list(t) for t in itertools.product(ALL, repeat=n)]
        lines = ["\t".join(["F", ext] + p) for p in pref]
        n_exh = sum(len(ALL) ** n for n in range(0, 5))
        stats["sequences"] += len(lines) * (len(ALL) + 1)
        CH = 200000
        for s in range(0, len(lines), CH):
            compare(lines[s:s + CH], "exhaustive<=4(all ops)")
        samples.append([show_op(o) for o in pref[len(pref) // 2]] + ["<every op>"])
        if thorough:
            it = itertools.product(MUT, repeat=4)
            while len(ck.violations) < 5:
                chunk = ["\t".join(("F", ext) + p) for p in itertools.islice(it, CH)]
                if not chunk:
                    break
                stats["sequences"] += len(chunk) * (len(ALL) + 1)
                compare(chunk, "exhaustive 5 (mutator prefix of 4 + every op)")
            n_exh += len(MUT) ** 4 * len(ALL)

        # --- (b) random longer histories over a wider universe
        UNI = ["a", "b", "c", "x", "y", "", "é", "ab", "a b", "std::X", "\U0001F986", "z"]
        rl = []
        for _ in range(40000 if thorough else 6000):
            n = rng.randint(5, 40 if rng.random() < 0.3 else 12)
            uni = rng.sample(UNI, rng.randint(3, 6))
            ops = []
            for _ in range(n):
                r = rng.random()
                if r < 0.45:
                    al = [rng.choice(uni) for _ in range(rng.choice([0, 0, 1, 1, 2, 2, 3, 4]))]
                    ops.append(op_set(rng.choice(uni), al))
                elif r < 0.70:
                    ops.append(op1("r", rng.choice(uni)))
                elif r < 0.95:
                    ops.append(op1(rng.choice("geu"), rng.choice(uni)))
                else:
                    ops.append("n")
            stats["max_len"] = max(stats["max_len"], n)
            rl.append("\t".join(["A"] + ops))
        stats["sequences"] += len(rl)
        compare(rl, "random API histories")
        samples.append([show_op(o) for o in rl[0].split("\t")[1:]])

        # --- (c) script-level commands on a real SDK context
        base = ck.impl(["BASE"])[0]
        pb = parse_dump(base)
        POOL = ["a", "b", "noop", "std::Noop", "arrlen", "array_size", "std::collections::ArrayLength",
                "sha256sum", "std::hash::Sha256Sum", "quit"]
        if pb is None:
            ck.broken.append("BASE dump of the SDK registry is not well-formed: " + base[:200])
        else:
            bc, ba = pb
            K = set(enc_str(p) for p in POOL)
            while True:
                K2 = set(K)
                for n, al in bc.items():
                    if n in K2 or any(a in K2 for a in al):
                        K2.add(n)
                        K2.update(al)
                for a, n in ba.items():
                    if a in K2 or n in K2:
                        K2.update([a, n])
                if K2 == K:
                    break
                K = K2
            Ks = sorted(K)
            cs = ";".join("%s/%s" % (n, ",".join(bc[n])) for n in sorted(bc) if n in K)
            al = ";".join("%s>%s" % (a, ba[a]) for a in sorted(ba) if a in K)
            head = ["P", " ".join(Ks), cs, al]
            ck.obligations.append("SDK base registry satisfies the invariant (all %d commands, %d aliases)" % (len(bc), len(ba)))
            if inv_holds(base):
                ck.discharged.append("SDK base registry invariant")
            else:
                ck.broken.append("SDK base registry violates the invariant")
            small = ["a", "noop", "std::Noop", "sha256sum"]
            sops = []
            for p in small:
                e = enc_str(p)
                sops += ["a %s %s" % (e, enc_str("echo")), "u " + e, "r " + e, "d " + e, "f " + e]
            pl = ["\t".join(head + list(t)) for n in range(1, 4 if thorough else 3) for t in itertools.product(sops, repeat=n)]
            n_small = len(pl)
            for _ in range(30000 if thorough else 5000):
                n = rng.randint(3, 25 if rng.random() < 0.3 else 10)
                pool = rng.sample(POOL, rng.randint(2, 6))
                ops = []
                for _ in range(n):
                    r = rng.random()
                    e = enc_str(rng.choice(pool))
                    if r < 0.25:
                        extra = [enc_str(rng.choice(["echo", "noop", "a", "xy"]))] * rng.choice([1, 1, 1, 2, 0])
                        ops.append(" ".join(["a", e] + extra))
                    elif r < 0.45:
                        ops.append("u " + e if rng.random() < 0.95 else "u " + e + " " + e)
                    elif r < 0.65:
                        ops.append("r " + e if rng.random() < 0.95 else "r " + e + " " + e)
                    elif r < 0.85:
                        ops.append("d " + e if rng.random() < 0.9 else "d " + e + " " + enc_str("zz"))
                    elif r < 0.93:
                        ops.append("f " + e)
                    else:
                        # the host registers a command (with 0-2 aliases from the pool) in the middle of the history
                        ops.append(" ".join(["h", e] + [enc_str(x) for x in rng.sample(pool, rng.randint(0, min(2, len(pool))))]))
                stats["max_len"] = max(stats["max_len"], n)
                pl.append("\t".join(head + ops))
            stats["sequences"] += len(pl)
            for s in range(0, len(pl), 50000):
                compare(pl[s:s + 50000], "script-level histories")
            samples.append([show_sop(o) for o in pl[-1].split("\t")[4:]])
            stats["script_exhaustive_small"] = n_small

        ck.coverage.update({
            "evaluations": stats["sequences"],
            "cases_run": stats["cases"],
            "distinct_nontrivial": len(stats["nontrivial"]),
            "rule": "API: every history of length <= %d over set(4 names x 8 alias sets)/get/exists/get_for_use/remove(5 keys)/"
                    "get_all_command_names, run as every prefix plus every one-operation extension (results and the dump of both "
                    "maps compared after every prefix step; the extensions' results and dumps compared through a hash and "
                    "expanded on mismatch); random histories to length 40 over 12 names incl. empty/Unicode/duplicate aliases; "
                    "script level: every history of length <= %d over 5 commands x 4 names and random ones to length 25 on an "
                    "SDK context, registry dumped after every step.  non-trivial = distinct case in which a registration was "
                    "refused (or a command errored) or a removal succeeded" % (5 if thorough else 4, 3 if thorough else 2),
            "exhaustive": True,
            "exhaustive_part": {"api_histories_covered": n_exh, "alphabet": 53, "mutators": 37},
            "refused_or_error_results": stats["refused"], "true_results(remove/exists/alias)": stats["removed"],
            "implementation_dumps_checked_against_Inv": stats["inv_checked"],
            "case_kinds": stats["kinds"], "max_history_length": stats["max_len"],
            "samples": samples,
        })
    else:
        ck.coverage.update({"evaluations": 0, "distinct_nontrivial": 0, "rule": "model did not build", "samples": []})
    ck.report_broken(found[0])
    ck.assumptions += [
        "a stored command is represented by (name(), aliases()); aliases() is assumed to return the same list every time "
        "(true of every command in the SDK; `remove` asks again at removal time)",
        "script level: one script per step; alias / fn register commands without aliases of their own; the alias and "
        "function sub-states are modelled as sets of names; the commands used by the harness itself (alias, unalias, "
        "remove_command, is_command_defined, fn, end, on_error) are outside the name pool",
        "String ordering is modelled as lexicographic order on scalar values (equal to UTF-8 byte order)",
        "translation tie (props/SrcRegistry.v): the translator lib/rs2v.py (class FnM) + lib/gen/registry_gen.py is trusted to "
        "render the Rust subset it accepts faithfully: HashMap contains_key/get/insert/remove as gmap lookup/insert/delete, "
        "`for x in &vec` as a left-to-right fold with early return, HashMap::keys in std++ map_to_list order (sorted "
        "afterwards; C15_names_sorted), a command as (name(), aliases()), the two `set` errors recognised by their format "
        "strings; when it does not understand the source the tie is reported inactive and the correspondence run is the only tie",
    ]
