"""Program generator / renderer / canonicaliser shared by the runner checks C03 and C13.

A program is a list of lines; a line is None (empty / comment line) or a dict
{label, out, cmd, args} (label includes the leading ':' as the parser stores it).  Commands are
{name: (cyclic, [result, ...])}; a result is a tuple
  ("C", v|None) ("L", v|None, label) ("J", v|None, n) ("X", v|None) ("E", msg) ("K", msg)
optionally wrapped as ("!", result) = raises the halt flag before answering.
Wire format: see ocaml/c03_driver.ml."""
import re
from vlib import enc_str, enc_list, dec_str, dec_list

ON_ERROR = "on_error"
EXIT_VALUES = [None, "0", "1", "-1", "+0", "-0", "007", "abc", "", "1x", " 1", "2147483647", "2147483648",
               "-2147483648", "-2147483649", "+", "-", "1.0", "٣", "42", "+5", "0x10", "1 ", "--1"]
VALUES = [None, "v", "0", "false", "", "a b", "true", "x1"]
LABELS = [":a", ":b", ":c"]
UNDEF_LABELS = [":zz", "a", ":"]
OUTS = ["x", "y", "z"]
MSGS = ["m1", "m2", "boom", "e r r"]
ARGS = ["a", "b1", "", "p q", "7", "-x", "Z", "a:b", "é", "tab\there"]
BLANKS = ["", "   ", "# comment", "  # c = d", "\t"]


def enc_opt(o):
    return "N" if o is None else "S" + enc_str(o)


def enc_res(r):
    if r[0] == "!":
        return "!" + enc_res(r[1])
    k = r[0]
    if k in ("C", "X"):
        return k + enc_opt(r[1])
    if k in ("E", "K"):
        return k + enc_str(r[1])
    if k == "L":
        return "L" + enc_opt(r[1]) + ":" + enc_str(r[2])
    if k == "J":
        return "J" + enc_opt(r[1]) + ":" + str(r[2])
    raise ValueError(r)


def enc_prog(lines):
    if not lines:
        return "-"
    out = []
    for l in lines:
        if l is None:
            out.append("E")
        else:
            out.append("|".join([enc_opt(l.get("label")), enc_opt(l.get("out")), enc_opt(l.get("cmd")),
                                 enc_list(l.get("args") or [])]))
    return ";".join(out)


def enc_cmds(cmds):
    if not cmds:
        return "-"
    return ";".join("%s|%d|%s" % (enc_str(n), 1 if cyc else 0, ",".join(enc_res(r) for r in rs) if rs else "-")
                    for n, (cyc, rs) in cmds.items())


def enc_vars(v):
    if not v:
        return "-"
    return ";".join("%s=%s" % (enc_str(k), enc_str(x)) for k, x in v.items())


def render_arg(a):
    if a == "" or " " in a or "\t" in a:
        return '"' + a.replace("\t", "\\t") + '"'
    return a


def render(lines, blanks=None, sp=" "):
    """script text; `blanks[k]` is the text used for empty line k"""
    out = []
    for k, l in enumerate(lines):
        if l is None:
            out.append((blanks or {}).get(k, ""))
            continue
        parts = []
        if l.get("label"):
            parts.append(l["label"])
        if l.get("out") is not None:
            parts.append(l["out"])
            parts.append("=")
        if l.get("cmd") is not None:
            parts.append(l["cmd"])
            parts += [render_arg(a) for a in (l.get("args") or [])]
        out.append(sp.join(parts))
    return "\n".join(out) + ("\n" if out else "")


def case_line(kind, src, halt_at, fuel, lines, cmds, vars_, text):
    return "\t".join([kind, enc_opt(src), "N" if halt_at is None else str(halt_at), str(fuel), enc_prog(lines),
                      enc_cmds(cmds), enc_vars(vars_), enc_str(text)])


# ---- random programs ---------------------------------------------------------------------------
def rand_result(rng, n_lines, allow_halt=False, calm=False):
    """calm: mostly results that keep the run going (long runs); otherwise every kind is likely"""
    r = rng.random()
    cuts = (0.46, 0.58, 0.70, 0.74, 0.96) if calm else (0.30, 0.42, 0.54, 0.64, 0.88)
    if r < cuts[0]:
        res = ("C", rng.choice(VALUES))
    elif r < cuts[1]:
        res = ("L", rng.choice(VALUES[:3]), rng.choice(LABELS if rng.random() < (0.97 if calm else 0.85) else UNDEF_LABELS))
    elif r < cuts[2]:
        t = rng.random()
        if t < (0.92 if calm else 0.7):
            n = rng.randint(0, max(0, n_lines - 1))
        elif t < 0.97:
            n = n_lines + rng.randint(0, 2)
        else:
            n = rng.choice([1000, 5000, 77])
        res = ("J", rng.choice(VALUES[:3]), n)
    elif r < cuts[3]:
        res = ("X", rng.choice(EXIT_VALUES))
    elif r < cuts[4]:
        res = ("E", rng.choice(MSGS))
    else:
        res = ("K", rng.choice(MSGS))
    if allow_halt and rng.random() < 0.15:
        res = ("!", res)
    return res


def rand_program(rng, max_lines=14, allow_halt=False, cyclic_p=0.15):
    calm = rng.random() < 0.7
    if calm:
        n = rng.randint(min(4, max_lines), max_lines)
    else:
        n = rng.randint(0, max_lines) if rng.random() < 0.9 else rng.randint(0, 3)
    ncmd = rng.randint(1, 4)
    names = ["c%d" % i for i in range(ncmd)]
    lines = []
    blanks = {}
    for k in range(n):
        r = rng.random()
        if r < 0.10:
            lines.append(None)
            blanks[k] = rng.choice(BLANKS)
            continue
        l = {}
        if rng.random() < 0.35:
            l["label"] = rng.choice(LABELS)
        t = rng.random()
        if t < 0.06 and l.get("label"):
            pass                                   # label-only line
        elif t < 0.10:
            l["out"] = rng.choice(OUTS)            # `x =`: output variable without command
        else:
            if rng.random() < 0.55:
                l["out"] = rng.choice(OUTS)
            l["cmd"] = rng.choice(names) if rng.random() < (0.99 if calm else 0.95) else rng.choice(["nope", "c9"])
            l["args"] = [rng.choice(ARGS) for _ in range(rng.choice([0, 0, 1, 1, 2, 3]))]
        if not l:
            lines.append(None)
            blanks[k] = ""
        else:
            lines.append(l)
    cmds = {}
    present = sorted({l["label"] for l in lines if l and l.get("label")})

    def fix(r):
        # calm programs jump to labels that exist (mostly)
        if calm and r[0] == "L" and r[2] in LABELS and r[2] not in present and rng.random() < 0.9:
            return ("L", r[1], rng.choice(present)) if present else ("C", r[1])
        if r[0] == "!":
            return ("!", fix(r[1]))
        return r
    for nm in names:
        cyc = rng.random() < cyclic_p
        nres = rng.randint(3, 10) if calm else rng.randint(0 if not cyc else 1, 6)
        cmds[nm] = (cyc, [fix(rand_result(rng, n, allow_halt, calm)) for _ in range(nres)])
    if rng.random() < 0.5:
        hr = []
        for _ in range(rng.randint(2, 8) if calm else rng.randint(0, 4)):
            t = rng.random()
            if t < (0.9 if calm else 0.6):
                hr.append(("C", rng.choice(VALUES)))
            elif t < 0.72:
                hr.append(("X", rng.choice(EXIT_VALUES[:4])))
            elif t < 0.84:
                hr.append(("K", "hcrash"))
            elif t < 0.92:
                hr.append(("E", "herr"))
            else:
                hr.append(("J", None, 0))
        cmds[ON_ERROR] = (rng.random() < 0.5, hr)
    vars_ = {}
    if rng.random() < 0.3:
        for v in rng.sample(OUTS + ["keep"], rng.randint(1, 3)):
            vars_[v] = rng.choice(["init", "", "0"])
    sp = " " if rng.random() < 0.8 else "  "
    return lines, cmds, vars_, blanks, sp


# ---- canonical forms -----------------------------------------------------------------------------
RUNNER_KINDS = ("NOTFOUND", "LABEL", "EXIT", "HEXIT")


def canon_model_err(detail):
    p = detail.split(" ")
    if p[0] in ("CRASH", "HCRASH"):
        return ("MSG", dec_str(p[1]) if not p[1].startswith("?") else "?")
    if p[0] in ("NOTFOUND", "LABEL"):
        return (p[0], dec_str(p[1]))
    if p[0] == "EXIT":
        return ("EXIT", p[1])
    return (p[0],)


def canon_impl_err(detail, known_msgs):
    p = detail.split(" ")
    if p[0] != "MSG":
        return ("PARSE-OR-OTHER", detail)
    msg = dec_str(p[1])
    if msg in known_msgs:
        return ("MSG", msg)
    m = re.match(r"^Command: (.*) not found\.$", msg, re.S)
    if m:
        return ("NOTFOUND", m.group(1))
    m = re.match(r"^Label: (.*) not found\.$", msg, re.S)
    if m:
        return ("LABEL", m.group(1))
    m = re.match(r"^Exit with error code: (-?\d+)$", msg)
    if m:
        return ("EXIT", m.group(1))
    if msg == "Exiting Script.":
        return ("HEXIT",)
    return ("OTHER", msg)


def sort_vars(f):
    return "-" if f == "-" else ";".join(sorted(f.split(";")))


def known_messages(cmds):
    s = {"exhausted"}
    for _, (_, rs) in cmds.items():
        for r in rs:
            if r[0] == "!":
                r = r[1]
            if r[0] in ("E", "K"):
                s.add(r[1])
    return s


def agree(m, i, cmds):
    """model result line vs implementation result line (both already split into 6 fields)"""
    if len(m) != 6 or len(i) != 6:
        return False
    if m[0] != i[0]:
        return False
    if m[4] != i[4]:
        return False                      # invocation log
    if m[0] == "OK":
        return sort_vars(m[5]) == sort_vars(i[5])
    if m[0] == "ERR":
        if m[2] != i[2] or m[3] != i[3]:
            return False                  # line, source
        cm, ci = canon_model_err(m[1]), canon_impl_err(i[1], known_messages(cmds))
        if ci[0] == "OTHER":
            # a runner-made message with a different wording: kinds are compared, not texts
            return cm[0] in RUNNER_KINDS
        return cm == ci
    return False
