"""C19 — script-implemented library commands leave no trace in the caller's variables.

Proved (coq/props/C19.v):
(1) on a model of the wrapper (AliasCommand::run) and for EVERY body: no variable under the scope prefix remains and the
    argument array is released; for a body confined to the prefix no caller variable changes (up to documented deletions)
    and the wrapper's leak crash cannot fire;
(2) every script.ds of the current tree, regenerated from source on each run, passes a decidable syntactic confinement
    check (C19_scripts) and its strengthened form on the instructions the runner sees (C19_scripts_strong / C19_table_ok);
(3) `confined_sound` (C19_confined_sound, C19_confined_sound_scripts, C19_every_script_command): a script passing the
    check, run by the model of eval_instructions / run_instruction / bind_command_arguments / AliasCommand::run /
    eval_condition (ScriptBody.v; scripts calling scripts and conditions running commands by induction on nesting depth),
    IS confined — for all native commands satisfying the frame hypotheses `frame_hyps` (one clause per class of the
    check; EVERY clause has a named validation against the real SDK below) and for runs that end with the ghost flag
    down.  The flag goes up only when eval_condition re-parses received arguments into an instruction that fails the
    check: arguments outside C09's safe classes (C19_condition_site shows safe ones never raise it) or a tested VALUE
    naming a registered command outside the tables (C19_condition_static: literal command words are checked statically);
(4) the flag hypothesis cannot be dropped (C19_confined_sound_unflagged_refuted): array_concat's own text deletes the
    caller's variable `is_array` when an argument is "=".  The same run is replayed here on the extracted model AND on
    the real SDK (known finding KF-C19-1, a consequence of C09's F7-E inside script commands).

Correspondence: every script command x argument pools x calling contexts on the real SDK: the caller's variables
before/after, variables left under any scope:: prefix, handles left behind; plus the frame-hypothesis validations."""
import os
import shutil
import vlib
from vlib import enc_str, dec_str, enc_list, dec_list

THEOREMS = ["C19_scripts", "C19_scripts_parse", "C19_scripts_nonvacuous", "C19_no_working_variable",
            "C19_argument_array_released", "C19_caller_variables", "C19_caller_variables_mod", "C19_leak_check_never_fires",
            # confined_sound (builder task B1)
            "C19_scripts_strong", "C19_table_ok", "C19_confined_sound", "C19_confined_sound_scripts",
            "C19_every_script_command", "C19_condition_site", "C19_condition_static", "C19_confined_sound_unflagged_refuted"]

# contexts that exercise NATIVE commands (validation of the frame hypotheses of C19_confined_sound), not script commands
NATIVE_CTX = ("pure-table", "fh_pure_random", "fh_flow", "fh_for", "fh_sbn", "fh_cond")
# one entry per clause of ScriptBodyProof.frame_hyps: (clause, what it says, contexts that validate it)
FRAME_HYPS = [
    ("fh_pure", "a command of the variable-pure table leaves the variable map unchanged (the runner writes its output variable)", ("pure-table", "fh_pure_random")),
    ("fh_flow", "else / end / end_if / endif / fi / end_while / endwhile / end_for change no variable", ("fh_flow",)),
    ("fh_for", "for writes nothing or only the variable named by its first received argument", ("fh_for",)),
    ("fh_sbn", "set_by_name with one received argument deletes exactly the variable of that name", ("fh_sbn",)),
    ("fh_pre/fh_post", "the native parts of if / elif / elseif / while / not around eval_condition change no variable", ("fh_cond",)),
]

PRELUDE = ["gone = array z",     # released at the END of the prelude: a hole below the newest handles (seed C19-w7-m1: handle keys
                                    # derived from the table size collide with a live collection once an older one was released)
           "arr = array a b \"c d\"", "arr2 = array x \"\"", "emp = array", "m = map", "emap = map", "eset = set_new", "arreq = array x = y", "map_put ${m} k v", "map_put ${m} k2 \"v 2\"",
           "s = set_new x y", "rel = array q", "release ${rel}", "a = set hello", "b = set \"a b\"", "n = set 2",
           "scope::other::keep = set mine", "plain = set 1", "release ${gone}"]
# argument texts (already in script syntax)
VALID = {
    "array_concat": [["${arr}", "${arr2}"], ["${emp}"], ["${arr}"], [], ["${arreq}", "${arr}"], ["${arr}", "nope"], ["${arr}", "${m}"], ["${arr}", "${rel}"], ["${arr}", "${s}"], ["${s}"], ["${s}", "${arr}"]],
    "array_contains": [["${arr}", "b"], ["${arr}", "zz"], ["${arr}", "\"c d\""], ["${emp}", "x"],
                       # an element that is exactly `=` and a searched value that names a command: data, never re-parsed
                       ["${arreq}", "pwd"], ["${arreq}", "os_name"], ["${arreq}", "y"], ["${arreq}", "array"],
                       # the handle of another kind of collection whose content matches the searched value (seed C19-w6-m1: a for-in
                       # over a set walked a snapshot array that stayed in the handle table when array_contains left the loop early)
                       ["${s}", "x"], ["${s}", "y"], ["${s}", "zz"], ["${eset}", "x"], ["${m}", "k"], ["${m}", "v"], ["${rel}", "q"]],
    "array_is_empty": [["${arr}"], ["${emp}"], ["${s}"], ["${eset}"], ["${m}"]],
    "array_join": [["${arr}", ","], ["${arr}", "\"\""], ["${emp}", ","], ["${arr2}", "-"], ["${arreq}", ","],
                   # the handle of another kind of collection, and a separator that the script's own condition cannot re-parse
                   # (a double quote together with a space): every path out of the script, the failing ones too, releases what
                   # the script allocated (seed C19-w5-m1: a temporary array leaked on the error path, for a set argument)
                   ["${s}", ","], ["${s}", "\"\\\", \\\"\""], ["${arr}", "\"\\\", \\\"\""], ["${m}", ","], ["${s}", "\"a b\""],
                   ["${eset}", ","], ["${s}", "\"q\\\" \""]],
    "map_contains_value": [["${m}", "v"], ["${m}", "zz"], ["${m}", "\"v 2\""], ["${emap}", "v"], ["${s}", "x"], ["${arr}", "b"]],
    "map_contains_key": [["${m}", "k"], ["${m}", "zz"], ["${emap}", "k"], ["${s}", "x"], ["${arr}", "b"]],
    "map_is_empty": [["${m}"], ["${emap}"], ["${s}"], ["${arr}"]],
    "set_from_array": [["${arr}"], ["${emp}"], ["${arreq}"], ["${s}"], ["${m}"]],
    "set_is_empty": [["${s}"], ["${eset}"], ["${arr}"], ["${m}"]],
    "is_windows": [[]],
    "print_env": [[]], "printenv": [[]],
    "uname": [[], ["-a"]],
    "glob_cp": [["nope/*.txt", "out"], ["nope.txt", "out"]], "cp_glob": [["nope/*.txt", "out"]],
    "glob_chmod": [["777", "nope/*.txt"]], "chmod_glob": [["777", "nope/*.txt"]],
    "join_path": [["a", "b"], ["a/", "/b", "c"], ["a"]],
    "sha256sum": [["nope.txt"]], "sha512sum": [["nope.txt"]],
    "base64": [["-e", "${arr}"], ["-d", "aGk="], ["-decode", "!!"], ["x"]],
    "concat": [["a", "b", "c"], [], ["\"x y\"", "z"]],
    "unset": [["a"], ["a", "b", "nope"], []],
    "wget": [],
}
GENERIC = [[], ["x"], ["${rel}"], ["${m}", "${s}"], ["${s}"], ["\"\""], ["nope", "nope", "nope"], ["\"a b\"", "\"c,d\""], ["${a}", "${n}"],
           ["handle:zz", "1"], ["-x", "--y"], ["é", "日本"], ["${arr}", "${arr}", "${arr}"]]


def contexts(cmd, args, idx):
    """(invocation script, allowed-to-change names).  The invocation assigns to `out`."""
    call = cmd + "".join(" " + a for a in args)
    return [
        ("top", "out = %s\n" % call, ["out"]),
        ("no-output", "%s\n" % call, []),
        ("function", "fn f%d\nr = %s\nreturn ${r}\nend\nout = f%d\n" % (idx, call, idx), ["out", "r"]),
        ("loop", "it = range 0 2\nfor i in ${it}\nout = %s\nend\nrelease ${it}\n" % call, ["out", "i", "it"]),
        ("twice", "out = %s\nout2 = %s\n" % (call, call), ["out", "out2"]),
        ("condition", "out = set no\nif %s\nout = set yes\nend\n" % call, ["out"]),
        ("scoped-function", "fn <scope> g%d\nr = %s\nreturn ${r}\nend\nout = g%d ${arr} ${m}\n" % (idx, call, idx), ["out"]),
    ]


def run(ck):
    ck.gen_from_source()
    ck.coq_build(["props/C19.vo", "extract/C19_extract.vo"])
    ck.print_assumptions(["DSP.C19"], ["DSP.C19." + t for t in THEOREMS])
    ck.source_tie("alias")
    ck.source_tie("eval")
    ck.hygiene()
    ck.ocaml_build()
    ck.harness_build(["c19", "listcmds"])
    thorough = ck.tier == "thorough"
    rng = ck.rng
    found = False
    tables = ck.model(["TABLES"])
    # _run_sharded returns one line per input line: re-run directly for the multi-line answer
    import subprocess
    out = subprocess.run([os.path.join(vlib.ROOT, "ocaml", "bin", "c19_model")], input="TABLES\n", capture_output=True, text=True).stdout.split("\n")
    scripts, pure, flow, condc, table_ok = [], [], [], [], None
    for l in out:
        f = l.split("\t")
        if f[0] == "SCRIPT":
            scripts.append({"path": dec_str(f[1]), "name": dec_str(f[2]), "aliases": dec_list(f[3]), "scope": dec_str(f[4]),
                            "min_args": int(f[5]), "confined": f[6] == "T", "confined_s": len(f) > 7 and f[7] == "T"})
        elif f[0] == "PURE":
            pure = dec_list(f[1])
        elif f[0] == "FLOW":
            flow = dec_list(f[1])
        elif f[0] == "COND":
            condc = dec_list(f[1])
        elif f[0] == "TABLEOK":
            table_ok = f[1] == "T"
    # tie of the regenerated table to the loaded registry: every script alias is a registered command and every registered
    # command whose run goes through the wrapper is in the table (names ending as in the table)
    reg = subprocess.run([os.path.join(vlib.CARGO_TARGET, "release", "listcmds")], capture_output=True, text=True).stdout.split("\n")
    reg_aliases, reg_names = set(), set()
    for l in reg:
        f = l.split("\t")
        if len(f) == 2:
            reg_names.add(f[0])
            reg_aliases.update(x for x in f[1].split(" ") if x)
    ck.obligations.append("regenerated script table: every alias is a registered SDK command")
    missing = [a for s in scripts for a in s["aliases"] if a not in reg_aliases]
    if missing or not scripts:
        ck.broken.append("regenerated script table vs registry: %s" % (missing or "empty table"))
    else:
        ck.discharged.append("script table vs registry")
    # the scripts test only their own flags, which hold the outputs of boolean commands / `set true|false` / nothing:
    # none of those values is a registered command, so such a test never runs a command (flag class (b) of the theorem)
    ck.obligations.append("registry: the values a script flag can hold (true false 0 1 yes no, empty) are not registered commands")
    boolish = [x for x in ("true", "false", "0", "1", "yes", "no", "") if x in reg_aliases or x in reg_names]
    if boolish or not reg_aliases:
        ck.broken.append("a boolean-looking value is a registered command: %s" % (boolish or "registry empty"))
    else:
        ck.discharged.append("boolean values are not commands")

    work = os.path.join(vlib.CACHE, "c19", "w%d" % os.getpid())
    shutil.rmtree(work, ignore_errors=True)
    os.makedirs(work)
    prelude = "\n".join(PRELUDE) + "\n"
    cases = []   # (descr, line)
    idx = 0
    for s in scripts:
        for alias in s["aliases"]:
            if alias == "wget":
                argsets = [["http://127.0.0.1:1/x"], ["-O", "f", "http://127.0.0.1:1/x"], []]   # connection refused at once
            else:
                # ... plus the wrapper's OWN working-variable names as argument values (a script that can delete or
                # overwrite a variable by name - unset - must not be able to disturb the wrapper's clean-up)
                sc = s["scope"] if s["scope"].startswith("scope::") else "scope::" + s["scope"]
                argsets = VALID.get(alias, []) + GENERIC + [[sc + "::arguments"], [sc + "::argument::1"], ["x", sc + "::arguments"]]
            for args in argsets:
                for cname, inv, allowed in contexts(alias, args, idx):
                    idx += 1
                    if alias == "unset":
                        allowed = allowed + [a for a in args if not a.startswith("$")]
                    cases.append(({"command": alias, "args": args, "context": cname, "script": inv, "scope": s["scope"]},
                                  "RUN\t%s\t%s\t%s" % (enc_str(prelude), enc_str(inv), enc_list(allowed))))
    n_script_cases = len(cases)
    # validation of the pure-command table: the native commands the syntactic check treats as variable-pure
    script_aliases = set(a for s in scripts for a in s["aliases"])
    for c in pure:
        if c in script_aliases or c in ("http_client", "trigger_error", "cp", "chmod"):
            if c in ("cp", "chmod"):
                argsets = [["nope1", "nope2"]]
            elif c == "trigger_error":
                argsets = [["boom"]]
            else:
                continue
        else:
            argsets = [[], ["${arr}"], ["${arr}", "1"], ["${m}", "k"], ["${s}", "x"], ["a", "b"], ["${a}", "${b}", "x"], ["1", "+", "2"], ["nope.txt"]]
        for args in argsets:
            call = c + "".join(" " + a for a in args)
            cases.append(({"command": c, "args": args, "context": "pure-table", "script": "out = %s\n" % call, "scope": None},
                          "RUN\t%s\t%s\t%s" % (enc_str(prelude), enc_str("out = %s\n" % call), enc_list(["out"]))))
    # ---- validation of the other frame hypotheses of C19_confined_sound on the real native commands -------------------
    def native_case(ctx, inv, allowed, command):
        cases.append(({"command": command, "args": [], "context": ctx, "script": inv, "scope": None},
                      "RUN\t%s\t%s\t%s" % (enc_str(prelude), enc_str(inv), enc_list(allowed))))
    for inv, allowed in [
            ("if true\nx1 = set 1\nelse\nx1 = set 2\nend\n", ["x1"]), ("if false\nelse\nend_if\n", []), ("if false\nelif true\nendif\n", []),
            ("if true\nfi\n", []), ("w = set 0\nwhile equals ${w} 0\nw = set 1\nend_while\n", ["w"]),
            ("w = set 0\nwhile equals ${w} 0\nw = set 1\nendwhile\n", ["w"]), ("for i in ${arr}\nend_for\n", ["i"]),
            ("else\n", []), ("end\n", []), ("end_if\n", []), ("end_while\n", []), ("end_for\n", []), ("fi\n", []), ("endif\n", []), ("endwhile\n", [])]:
        native_case("fh_flow", inv, allowed, "flow keywords")
    for inv, allowed in [
            ("for i in ${arr}\nend\n", ["i"]), ("for i in ${emp}\nend\n", ["i"]), ("for i in\n", ["i"]), ("for i of ${arr}\n", ["i"]), ("for\n", []),
            ("for i in ${m}\nend\n", ["i"]), ("for i in nope\nend\n", ["i"]), ("for a in ${arr}\nend\n", ["a"]), ("for i in ${arr2}\nend\n", ["i"])]:
        native_case("fh_for", inv, allowed, "for")
    # `marker` appears among the new variables iff the named variable is still defined afterwards
    for inv, allowed in [
            ("set_by_name a\nif is_defined a\nmarker = set 1\nend\n", ["a"]), ("set_by_name nope\n", ["nope"]), ("set_by_name\n", []),
            ("set_by_name plain\nif is_defined plain\nmarker = set 1\nend\n", ["plain"]),
            ("set_by_name scope::other::keep\nif is_defined scope::other::keep\nmarker = set 1\nend\n", ["scope::other::keep"])]:
        native_case("fh_sbn", inv, allowed, "set_by_name")
    for inv, allowed in [
            ("if true\nend\n", []), ("if false\nend\n", []), ("if ${a}\nend\n", []), ("if ${nope}\nend\n", []), ("if true and false\nend\n", []),
            ("if ( true or false )\nend\n", []), ("while false\nend\n", []), ("out = not true\n", ["out"]), ("out = not ${a}\n", ["out"]), ("if\nend\n", []),
            ("if false\nelif ${a}\nend\n", []), ("if false\nelseif false\nelse\nend\n", []), ("elif true\n", []), ("elseif true\n", []),
            ("if equals a b\nend\n", []), ("if not equals a a\nend\n", []), ("if is_array ${arr}\nend\n", []),
            ("while contains abc z\nend\n", []), ("out = not equals a a\n", ["out"]), ("not\n", []), ("while\nend\n", [])]:
        native_case("fh_cond", inv, allowed, "if/elif/while/not")
    # seeded: variable-pure commands x random argument lists (commands that touch the file system / network or that
    # evaluate their arguments as a condition are left to the fixed lists above)
    skip_random = set(script_aliases) | {"http_client", "trigger_error", "cp", "chmod", "glob_array", "globarray", "digest", "not",
                                         "is_file", "is_dir", "dirname", "basename", "env_to_map", "map_to_properties", "echo"}
    rnd_cmds = [c for c in pure if c not in skip_random]
    tokens = ["${arr}", "${arr2}", "${emp}", "${m}", "${s}", "${a}", "${b}", "${n}", "${nope}", "a", "b", "k", "k2", "x", "0", "1", "2", "-1", "+", "-", "*",
              "\"x y\"", "\"\"", "handle:zz", "é", "scope::other::keep", "plain"]
    for _ in range(600 if thorough else 150):
        c = rng.choice(rnd_cmds)
        args = [rng.choice(tokens) for _ in range(rng.randint(0, 4))]
        call = c + "".join(" " + a for a in args)
        cases.append(({"command": c, "args": args, "context": "fh_pure_random", "script": "out = %s\n" % call, "scope": None},
                      "RUN\t%s\t%s\t%s" % (enc_str(prelude), enc_str("out = %s\n" % call), enc_list(["out"]))))
    res = ck.impl([l for _, l in cases], args=())
    dist = {}
    hyp_done = {}
    nontriv = set()
    for k, ((d, line), r) in enumerate(zip(cases, res)):
        f = r.split("\t")
        st = f[0].split(" ")[0]
        dist[d["context"] + ":" + st] = dist.get(d["context"] + ":" + st, 0) + 1
        if len(f) not in (6, 7):
            # PANIC / FAIL...: a script command must not make the run fail; crashes inside pure-table cases are C07's business
            if d["context"] not in NATIVE_CTX and not st.startswith("FAIL"):
                found = True
                if len(ck.violations) < 5:
                    ck.violation({"kind": "invocation did not complete", "case": d, "result": r, "wire": line})
            elif d["context"] not in NATIVE_CTX and "Memory leak" in dec_str(f[0].split(" ")[1] if " " in f[0] else "e"):
                found = True
                if len(ck.violations) < 5:
                    ck.violation({"kind": "wrapper reported a memory leak", "case": d, "result": r, "wire": line})
            continue
        fields = dict(x.split("=", 1) for x in f[1:])
        if d["context"] in NATIVE_CTX:
            hyp_done[d["context"]] = hyp_done.get(d["context"], 0) + 1
        changed, new, gone, scoped = (dec_list(fields[k2]) for k2 in ("changed", "new", "gone", "scoped"))
        handles = int(fields["handles"])
        nontriv.add((d["command"], tuple(d["args"]), d["context"]))
        bad = []
        if changed:
            bad.append("caller variables modified: %s" % changed)
        if new:
            bad.append("variables created: %s" % new)
        if gone:
            bad.append("caller variables deleted: %s" % gone)
        if scoped:
            bad.append("working variables left under a scope prefix: %s" % scoped)
        if handles and d["context"] not in NATIVE_CTX:
            # collections other than the documented output left behind; on an ERROR path a partially built result may
            # remain (not an argument-passing temporary): only the success path is constrained here
            # commands whose documented OUTPUT is a new collection: one per invocation may exist without a variable referring
            # to it (no output variable / output overwritten by the second invocation)
            invocations = 2 if d["context"] in ("loop", "twice") else 1
            tolerated = invocations if d["command"] in ("array_concat", "set_from_array", "base64") else 0
            if st == "OK" and handles > tolerated:
                bad.append("%d collection(s) left behind that no output variable refers to (documented outputs: %d)" % (handles, tolerated))
            # a command that REPORTS AN ERROR returns no collection: whatever it allocated on the way must be gone
            if st == "ERR" and handles > 0:
                bad.append("%d collection(s) left behind by an invocation that reported an error" % handles)
        if int(fields.get("lost", "0")) and d["context"] not in NATIVE_CTX:
            # no script command releases a collection of its caller (seed C19-w7-m1: the wrapper's argument array was stored under
            # the key of a live collection and the clean-up then removed it)
            bad.append("%s collection(s) of the caller are gone from the handle table after the call" % fields["lost"])
        if bad:
            found = True
            if len(ck.violations) < 5:
                hyp = [h for h, _, ctxs in FRAME_HYPS if d["context"] in ctxs]
                ck.violation({"kind": "script command leaves a trace" if d["context"] not in NATIVE_CTX else
                              "frame hypothesis %s of C19_confined_sound does not hold for the native command of this tree "
                              "(the syntactic check's tables are wrong for it)" % (hyp[0] if hyp else "?"),
                              "case": d, "observed": bad, "result": r, "wire": line,
                              "theorems": ["C19_scripts", "C19_caller_variables"] if d["context"] not in NATIVE_CTX else
                                          ["C19_confined_sound", "C19_every_script_command"],
                              "seed": ck.seed,
                              "replay_cmd": "printf '%%s\\n' '%s' | %s" % (line.replace("\t", "\\t"), os.path.join(vlib.CARGO_TARGET, "release", "c19"))})
    shutil.rmtree(work, ignore_errors=True)
    ck.obligations.append("every regenerated script passes script_confined (extracted, per script)")
    notc = [s["aliases"][0] for s in scripts if not s["confined"]]
    if notc:
        ck.broken.append("script_confined = false for: %s" % notc)
    else:
        ck.discharged.append("script_confined per script")
    ck.obligations.append("every regenerated script passes the strengthened check script_confined_s, and table_ok_s gen_table (extracted)")
    nots = [s["aliases"][0] for s in scripts if not s["confined_s"]]
    if nots or table_ok is not True:
        ck.broken.append("script_confined_s = false for: %s ; table_ok_s = %s (a regenerated script fails the check the soundness theorem needs)" % (nots, table_ok))
    else:
        ck.discharged.append("script_confined_s per script")
    # every clause of frame_hyps has a named validation that actually ran on the real SDK
    frame_validation = {}
    for h, text, ctxs in FRAME_HYPS:
        ran = sum(hyp_done.get(c, 0) for c in ctxs)
        frame_validation[h] = {"says": text, "contexts": list(ctxs), "cases_completed": ran}
        ck.obligations.append("frame hypothesis %s validated on the real SDK" % h)
        if ran == 0:
            ck.broken.append("frame hypothesis %s: no validation case ran to completion" % h)
        else:
            ck.discharged.append("frame hypothesis %s (%d cases)" % (h, ran))
    # the counterexample of C19_confined_sound_unflagged_refuted: extracted model vs the real SDK
    ck.obligations.append("witness of C19_confined_sound_unflagged_refuted: extracted model and real SDK agree")
    wm = subprocess.run([os.path.join(vlib.ROOT, "ocaml", "bin", "c19_model")], input="WITNESS\n", capture_output=True, text=True).stdout.strip().split("\t")
    wpre = prelude + "is_array = set keepme\n"
    wi = ck.impl(["RUN\t%s\t%s\t%s" % (enc_str(wpre), enc_str("out = array_concat =\n"), enc_list(["out"]))], args=())[0].split("\t")
    model_deletes = wm[:1] == ["WITNESS"] and len(wm) == 3 and wm[1] == "T" and wm[2] == "F"
    impl_gone = dec_list(dict(x.split("=", 1) for x in wi[1:])["gone"]) if len(wi) in (6, 7) else None
    witness = {"model": wm, "impl": wi, "impl_gone": impl_gone}
    if model_deletes and impl_gone == ["is_array"]:
        ck.discharged.append("witness model == implementation")
        ck.known("KF-C19-1: `array_concat =` (any script command whose condition re-parses an argument value: array_concat, array_join, "
                 "set_from_array ...) deletes the caller's variable `is_array`: utils/eval.rs::parse turns the received arguments "
                 "[is_array, =] into the line `is_array = `, an assignment without a command (consequence of C09 F7-E inside a script command)")
    elif model_deletes and impl_gone == []:
        # the defect no longer reproduces on the real SDK: on this input the implementation now does what the PROPERTY
        # says (the caller's variable survives).  That is not an alarm; the finding is simply not reported.
        ck.discharged.append("witness: the implementation no longer deletes the caller's variable (finding KF-C19-1 not reproduced)")
        witness["note"] = "KF-C19-1 does not reproduce on this tree: the property holds on the witness input"
    else:
        ck.broken.append("witness of C19_confined_sound_unflagged_refuted: model says flag up and is_array deleted = %s, real SDK deleted %s "
                         "(the model of the condition re-parse no longer corresponds to utils/eval.rs / utils/condition.rs)" % (model_deletes, impl_gone))
    ck.coverage.update({
        "evaluations": len(cases),
        "distinct_nontrivial": len(nontriv),
        "rule": "every alias of every script-implemented command (%d commands) x per-command valid argument lists + 13 generic lists (too few, released / wrong-kind "
                "handles, special characters) x 7 calling contexts (top level, no output variable, inside a function, inside a for loop, twice in a row, as an if "
                "condition, inside a <scope> function), with caller variables incl. one under another scope prefix; plus every command of the variable-pure table "
                "x 9 argument lists. compared: caller variables before/after, variables left under scope::, collections left behind. non-trivial = distinct "
                "(command, arguments, context) that ran to completion" % len(scripts),
        "exhaustive": False,
        "samples": [cases[0][0], cases[n_script_cases // 2][0], cases[-1][0]],
        "status_distribution": dist,
        "script_commands": [s["aliases"] for s in scripts],
        "pure_table": pure,
        "frame_hypotheses": frame_validation,
        "witness_unflagged_refuted": witness,
        "cond_commands": condc,
        "confined_sound": "proved (C19_confined_sound / C19_confined_sound_scripts / C19_every_script_command) for all native commands satisfying "
                          "frame_hyps and all runs that end with the ghost flag down; the flag hypothesis is necessary (C19_confined_sound_unflagged_refuted)",
        "not_proved": "that the flag stays down for value-headed conditions (`if ${flag}`): needs a value analysis of the scripts' own flags "
                      "(they hold outputs of boolean commands; this run checks that no such value is a registered command). "
                      "The native commands are not modelled: frame_hyps is validated against them here, not proved",
    })
    ck.report_broken(found)
    ck.assumptions += [
        "wrapper theorems (C19_no_working_variable ... C19_leak_check_never_fires): the body is a parameter (any body); "
        "C19_every_script_command instantiates it with the model of eval_instructions (ScriptBody.v)",
        "frame_hyps (hypothesis of C19_confined_sound*, C19_every_script_command) — assumptions about NATIVE commands, validated on the real SDK "
        "on every run, not proved: " + "; ".join("%s: %s [validated by %s, %d cases]" % (h, v["says"], "+".join(v["contexts"]), v["cases_completed"])
                                                  for h, v in frame_validation.items()),
        "ghost flag down (hypothesis of the same theorems): no condition re-parse produced an instruction outside the check. Excluded runs: received "
        "condition arguments outside C09's safe classes (known finding KF-C19-1 / C09 F7-*), or a tested value that names a registered command outside the tables",
        "reserved prefixes: caller variables under scope::<scope of ANY script command>:: are outside the theorem (each wrapper clears its own prefix, also when "
        "called from another script command)",
        "handle contents, flow-control stacks, the command registry and the environment are one abstract state the native commands may change freely; "
        "only the handle KEY set is tracked (argument array released)",
        "caller variables under the command's own reserved prefix scope::<name>:: are deleted by the wrapper (by design: C19_no_working_variable shows it); the run uses a caller variable under a different scope prefix",
        "collections left behind on an error path other than the argument array (e.g. array_concat's partially built result) are not constrained by the property",
    ]
