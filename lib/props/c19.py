"""C19 — script-implemented library commands leave no trace in the caller's variables.

Proved (coq/props/C19.v): (1) on a model of the wrapper (AliasCommand::run) and for EVERY body: no
variable under the scope prefix remains and the argument array is released; for a body confined
to the prefix no caller variable changes (up to documented deletions) and the wrapper's leak crash
cannot fire; (2) every script.ds of the current tree, regenerated from source on each run, passes
a decidable syntactic confinement check (prefix of the wrapper it is registered with; only
variable-pure commands).  NOT proved (`confined_sound`): that a script passing the syntactic check
is confined when interpreted — that needs the whole interpreter; it is covered by the
correspondence run below, which also validates the table of variable-pure native commands the
syntactic check relies on.

Correspondence: every script command x argument pools x calling contexts on the real SDK: the
caller's variables before/after, variables left under any scope:: prefix, handles left behind."""
import os
import shutil
import vlib
from vlib import enc_str, dec_str, enc_list, dec_list

THEOREMS = ["C19_scripts", "C19_scripts_parse", "C19_scripts_nonvacuous", "C19_no_working_variable",
            "C19_argument_array_released", "C19_caller_variables", "C19_caller_variables_mod", "C19_leak_check_never_fires"]

PRELUDE = ["arr = array a b \"c d\"", "arr2 = array x \"\"", "emp = array", "m = map", "map_put ${m} k v", "map_put ${m} k2 \"v 2\"",
           "s = set_new x y", "rel = array q", "release ${rel}", "a = set hello", "b = set \"a b\"", "n = set 2",
           "scope::other::keep = set mine", "plain = set 1"]
# argument texts (already in script syntax)
VALID = {
    "array_concat": [["${arr}", "${arr2}"], ["${emp}"], ["${arr}"], []],
    "array_contains": [["${arr}", "b"], ["${arr}", "zz"], ["${arr}", "\"c d\""], ["${emp}", "x"]],
    "array_is_empty": [["${arr}"], ["${emp}"]],
    "array_join": [["${arr}", ","], ["${arr}", "\"\""], ["${emp}", ","], ["${arr2}", "-"]],
    "map_contains_key": [["${m}", "k"], ["${m}", "zz"]],
    "map_contains_value": [["${m}", "v"], ["${m}", "zz"], ["${m}", "\"v 2\""]],
    "map_is_empty": [["${m}"]],
    "set_from_array": [["${arr}"], ["${emp}"]],
    "set_is_empty": [["${s}"]],
    "is_windows": [[]],
    "print_env": [[]], "printenv": [[]],
    "uname": [[], ["-a"]],
    "glob_cp": [["nope/*.txt", "out"], ["nope.txt", "out"]], "cp_glob": [["nope/*.txt", "out"]],
    "glob_chmod": [["777", "nope/*.txt"]], "chmod_glob": [["777", "nope/*.txt"]],
    "join_path": [["a", "b"], ["a/", "/b", "c"], ["a"]],
    "sha256sum": [["nope.txt"]], "sha512sum": [["nope.txt"]],
    "base64": [["-e", "${arr}"], ["-d", "aGk="], ["-decode", "!!"], ["x"]],
    "concat": [["a", "b", "c"], [], ["\"x y\"", "z"]],
    "unset": [["a"], ["a", "b", "nope"], []],
    "wget": [],
}
GENERIC = [[], ["x"], ["${rel}"], ["${m}", "${s}"], ["${s}"], ["\"\""], ["nope", "nope", "nope"], ["\"a b\"", "\"c,d\""], ["${a}", "${n}"],
           ["handle:zz", "1"], ["-x", "--y"], ["é", "日本"], ["${arr}", "${arr}", "${arr}"]]


def contexts(cmd, args, idx):
    """(invocation script, allowed-to-change names).  The invocation assigns to `out`."""
    call = cmd + "".join(" " + a for a in args)
    return [
        ("top", "out = %s\n" % call, ["out"]),
        ("no-output", "%s\n" % call, []),
        ("function", "fn f%d\nr = %s\nreturn ${r}\nend\nout = f%d\n" % (idx, call, idx), ["out", "r"]),
        ("loop", "it = range 0 2\nfor i in ${it}\nout = %s\nend\nrelease ${it}\n" % call, ["out", "i", "it"]),
        ("twice", "out = %s\nout2 = %s\n" % (call, call), ["out", "out2"]),
        ("condition", "out = set no\nif %s\nout = set yes\nend\n" % call, ["out"]),
        ("scoped-function", "fn <scope> g%d\nr = %s\nreturn ${r}\nend\nout = g%d ${arr} ${m}\n" % (idx, call, idx), ["out"]),
    ]


def run(ck):
    ck.gen_from_source()
    ck.coq_build(["props/C19.vo", "extract/C19_extract.vo"])
    ck.print_assumptions(["DSP.C19"], ["DSP.C19." + t for t in THEOREMS])
    ck.hygiene()
    ck.ocaml_build()
    ck.harness_build(["c19", "listcmds"])
    thorough = ck.tier == "thorough"
    rng = ck.rng
    found = False
    tables = ck.model(["TABLES"])
    # _run_sharded returns one line per input line: re-run directly for the multi-line answer
    import subprocess
    out = subprocess.run([os.path.join(vlib.ROOT, "ocaml", "bin", "c19_model")], input="TABLES\n", capture_output=True, text=True).stdout.split("\n")
    scripts, pure, flow = [], [], []
    for l in out:
        f = l.split("\t")
        if f[0] == "SCRIPT":
            scripts.append({"path": dec_str(f[1]), "name": dec_str(f[2]), "aliases": dec_list(f[3]), "scope": dec_str(f[4]),
                            "min_args": int(f[5]), "confined": f[6] == "T"})
        elif f[0] == "PURE":
            pure = dec_list(f[1])
        elif f[0] == "FLOW":
            flow = dec_list(f[1])
    # tie of the regenerated table to the loaded registry: every script alias is a registered command and every registered
    # command whose run goes through the wrapper is in the table (names ending as in the table)
    reg = subprocess.run([os.path.join(vlib.CARGO_TARGET, "release", "listcmds")], capture_output=True, text=True).stdout.split("\n")
    reg_aliases = set()
    for l in reg:
        f = l.split("\t")
        if len(f) == 2:
            reg_aliases.update(f[1].split(" "))
    ck.obligations.append("regenerated script table: every alias is a registered SDK command")
    missing = [a for s in scripts for a in s["aliases"] if a not in reg_aliases]
    if missing or not scripts:
        ck.broken.append("regenerated script table vs registry: %s" % (missing or "empty table"))
    else:
        ck.discharged.append("script table vs registry")

    work = os.path.join(vlib.CACHE, "c19", "w%d" % os.getpid())
    shutil.rmtree(work, ignore_errors=True)
    os.makedirs(work)
    prelude = "\n".join(PRELUDE) + "\n"
    cases = []   # (descr, line)
    idx = 0
    for s in scripts:
        for alias in s["aliases"]:
            if alias == "wget":
                argsets = [["http://127.0.0.1:1/x"], ["-O", "f", "http://127.0.0.1:1/x"], []]   # connection refused at once
            else:
                argsets = VALID.get(alias, []) + GENERIC
            for args in argsets:
                for cname, inv, allowed in contexts(alias, args, idx):
                    idx += 1
                    if alias == "unset":
                        allowed = allowed + [a for a in args if not a.startswith("$")]
                    cases.append(({"command": alias, "args": args, "context": cname, "script": inv, "scope": s["scope"]},
                                  "RUN\t%s\t%s\t%s" % (enc_str(prelude), enc_str(inv), enc_list(allowed))))
    n_script_cases = len(cases)
    # validation of the pure-command table: the native commands the syntactic check treats as variable-pure
    script_aliases = set(a for s in scripts for a in s["aliases"])
    for c in pure:
        if c in script_aliases or c in ("http_client", "trigger_error", "cp", "chmod"):
            if c in ("cp", "chmod"):
                argsets = [["nope1", "nope2"]]
            elif c == "trigger_error":
                argsets = [["boom"]]
            else:
                continue
        else:
            argsets = [[], ["${arr}"], ["${arr}", "1"], ["${m}", "k"], ["${s}", "x"], ["a", "b"], ["${a}", "${b}", "x"], ["1", "+", "2"], ["nope.txt"]]
        for args in argsets:
            call = c + "".join(" " + a for a in args)
            cases.append(({"command": c, "args": args, "context": "pure-table", "script": "out = %s\n" % call, "scope": None},
                          "RUN\t%s\t%s\t%s" % (enc_str(prelude), enc_str("out = %s\n" % call), enc_list(["out"]))))
    res = ck.impl([l for _, l in cases], args=())
    dist = {}
    nontriv = set()
    for k, ((d, line), r) in enumerate(zip(cases, res)):
        f = r.split("\t")
        st = f[0].split(" ")[0]
        dist[d["context"] + ":" + st] = dist.get(d["context"] + ":" + st, 0) + 1
        if len(f) != 6:
            # PANIC / FAIL...: a script command must not make the run fail; crashes inside pure-table cases are C07's business
            if d["context"] != "pure-table" and not st.startswith("FAIL"):
                found = True
                if len(ck.violations) < 5:
                    ck.violation({"kind": "invocation did not complete", "case": d, "result": r, "wire": line})
            elif d["context"] != "pure-table" and "Memory leak" in dec_str(f[0].split(" ")[1] if " " in f[0] else "e"):
                found = True
                if len(ck.violations) < 5:
                    ck.violation({"kind": "wrapper reported a memory leak", "case": d, "result": r, "wire": line})
            continue
        fields = dict(x.split("=", 1) for x in f[1:])
        changed, new, gone, scoped = (dec_list(fields[k2]) for k2 in ("changed", "new", "gone", "scoped"))
        handles = int(fields["handles"])
        nontriv.add((d["command"], tuple(d["args"]), d["context"]))
        bad = []
        if changed:
            bad.append("caller variables modified: %s" % changed)
        if new:
            bad.append("variables created: %s" % new)
        if gone:
            bad.append("caller variables deleted: %s" % gone)
        if scoped:
            bad.append("working variables left under a scope prefix: %s" % scoped)
        if handles and d["context"] != "pure-table":
            # collections other than the documented output left behind; on an ERROR path a partially built result may
            # remain (not an argument-passing temporary): only the success path is constrained here
            # commands whose documented OUTPUT is a new collection: one per invocation may exist without a variable referring
            # to it (no output variable / output overwritten by the second invocation)
            invocations = 2 if d["context"] in ("loop", "twice") else 1
            tolerated = invocations if d["command"] in ("array_concat", "set_from_array", "base64") else 0
            if st == "OK" and handles > tolerated:
                bad.append("%d collection(s) left behind that no output variable refers to (documented outputs: %d)" % (handles, tolerated))
        if bad:
            found = True
            if len(ck.violations) < 5:
                ck.violation({"kind": "script command leaves a trace" if d["context"] != "pure-table" else
                              "a command of the variable-pure table writes variables (the syntactic check's table is wrong for this tree)",
                              "case": d, "observed": bad, "result": r, "wire": line, "theorems": ["C19_scripts", "C19_caller_variables"],
                              "seed": ck.seed})
    shutil.rmtree(work, ignore_errors=True)
    ck.obligations.append("every regenerated script passes script_confined (extracted, per script)")
    notc = [s["aliases"][0] for s in scripts if not s["confined"]]
    if notc:
        ck.broken.append("script_confined = false for: %s" % notc)
    else:
        ck.discharged.append("script_confined per script")
    ck.coverage.update({
        "evaluations": len(cases),
        "distinct_nontrivial": len(nontriv),
        "rule": "every alias of every script-implemented command (%d commands) x per-command valid argument lists + 13 generic lists (too few, released / wrong-kind "
                "handles, special characters) x 7 calling contexts (top level, no output variable, inside a function, inside a for loop, twice in a row, as an if "
                "condition, inside a <scope> function), with caller variables incl. one under another scope prefix; plus every command of the variable-pure table "
                "x 9 argument lists. compared: caller variables before/after, variables left under scope::, collections left behind. non-trivial = distinct "
                "(command, arguments, context) that ran to completion" % len(scripts),
        "exhaustive": False,
        "samples": [cases[0][0], cases[n_script_cases // 2][0], cases[-1][0]],
        "status_distribution": dist,
        "script_commands": [s["aliases"] for s in scripts],
        "pure_table": pure,
        "not_proved": "confined_sound (script_confined s = true -> the interpreted script is confined): covered by this run only",
    })
    ck.report_broken(found)
    ck.assumptions += [
        "the nested mini-runner executing a script body is a parameter of the wrapper theorem (any body)",
        "the table of variable-pure native commands is an assertion validated against the real commands on every run, not proved",
        "caller variables under the command's own reserved prefix scope::<name>:: are deleted by the wrapper (by design: C19_no_working_variable shows it); the run uses a caller variable under a different scope prefix",
        "collections left behind on an error path other than the argument array (e.g. array_concat's partially built result) are not constrained by the property",
    ]
