"""C10 — command errors are reported, positioned and survivable (or fatal when asked).

Formal side: props/C10.v (SdkErr.v on top of the runner model): C10_step, C10_output_false,
C10_queries, C10_exit_toggle, C10_latest, C10_latest_wins, C10_alias_body, C10_alias.
Correspondence: programs are generated in a small structured language (sequences of error sites,
queries, exit_on_error toggles; `if true/false` branches; for-in loops over `range 0 n`; functions
called several times; pre-processor includes), rendered to real script text (and included files) and
run by the real SDK (text and file mode).  The generator also lists the *executed* sequence of
sites with the physical line and source file of each (constant conditions and fixed iteration
counts: no knowledge of the SDK's flow commands is used); that sequence is what the extracted
model (Runner + SdkErr, instantiated in SdkErrInst.v) runs.  Compared: Ok / Err(message, line,
source), every snapshot (hsnap) of get_last_error / _line / _source and output variables taken
during the run, and the final values of the watched variables.
The messages of failing library / script-implemented commands are read from the implementation by
a calibration run, so no message text is written down here."""
import itertools
import os
import vlib
from vlib import enc_str, dec_str, enc_list
from props import runner_gen as G

THEOREMS = ["C10_step", "C10_output_false", "C10_queries", "C10_exit_toggle", "C10_latest", "C10_latest_wins",
            "C10_alias_body", "C10_alias", "C10_nonvacuous"]
FUEL = 2000
SCRATCH = os.path.join(vlib.ROOT, ".cache", "c10")
WATCH = ["e", "l", "s", "x", "y", "t"]
MSGS = ["m1", "m2", "boom", "two words", "Error", "false", "0"]
# candidates for failing library commands; kept only if the calibration run shows a repeatable error
LIB_CANDIDATES = [("array_pop", ["nothandle"], "lib"), ("array_get", ["nothandle", "0"], "lib"),
                  ("array_length", ["nothandle"], "lib"), ("map_get", ["nothandle", "k"], "lib"),
                  ("array_join", ["nothandle", ","], "script"), ("set_from_array", ["nothandle"], "script"),
                  ("array_is_empty", ["nothandle"], "script")]
ALIAS_DEF = "alias myfail trigger_error inner"     # eval-implemented user command failing with "inner"


def I(cmd, args=(), out=None):
    return {"cmd": cmd, "args": list(args), "out": out}


def site_error(rng, libs):
    r = rng.random()
    out = rng.choice([None, "x", "x", "y"])
    if r < 0.30:
        return [I("trigger_error", [rng.choice(MSGS)] if rng.random() < 0.85 else [], out)], "trigger_error"
    if r < 0.42:
        return [I("assert_error", [rng.choice(MSGS)] if rng.random() < 0.8 else [], out)], "assert_error"
    if r < 0.62:
        return [I("hfail", [rng.choice(MSGS)] if rng.random() < 0.9 else [], out)], "harness"
    if r < 0.70:
        return [I("myfail", [], out)], "alias"
    if libs:
        name, args, cat = rng.choice(libs)
        return [I(name, args, out)], cat
    return [I("hfail", ["m1"], out)], "harness"


def site_query():
    return [I("get_last_error", [], "e"), I("get_last_error_line", [], "l"), I("get_last_error_source", [], "s"),
            I("hsnap", ["e", "l", "s", "x", "y", "t"])]


def site_toggle(rng, on=None):
    if on is None:
        r = rng.random()
        if r < 0.12:
            return [I(rng.choice(["exit_on_error", "set_exit_on_error"]), [], "t"), I("hsnap", ["t"])]
        on = r < 0.5
    v = rng.choice(["true", "yes", "1", "TRUE", "on"]) if on else rng.choice(["false", "no", "0", "", "FALSE", "No"])
    return [I(rng.choice(["exit_on_error", "set_exit_on_error"]), [v], rng.choice([None, "t"]))]


def site_set_error(rng, libs):
    """set_error, the message / source / mode it leaves, then at once a failing command: the line set_error
    records is the instruction *index*, which the flattened model program does not preserve, so nothing reads
    get_last_error_line before the next error overwrites it (or, with exit_on_error on, ends the run)"""
    err, cat = site_error(rng, libs)
    return [I("set_error", [rng.choice(["sm", "set msg", "m1"])], rng.choice([None, "x"])),
            I("get_last_error", [], "e"), I("get_last_error_source", [], "s"), I("hsnap", ["e", "s", "x", "t"])] + err


def site_direct(rng):
    return [I("on_error", rng.choice([["dmsg", "99", "dsrc"], ["dmsg"], ["dmsg", "5"], ["dmsg", "7", "src", "extra"]]),
              rng.choice([None, "x"]))]


def gen_block(rng, depth, libs, funcs, stats, allow_exit):
    out = []
    for _ in range(rng.randint(1, 4 if depth > 0 else 6)):
        r = rng.random()
        if r < 0.34:
            s, cat = site_error(rng, libs)
            stats["placement_static"][cat] = stats["placement_static"].get(cat, 0) + 1
            out.append(("site", s))
            if rng.random() < 0.6:
                out.append(("site", site_query()))
        elif r < 0.50:
            out.append(("site", site_query()))
        elif r < 0.60 and allow_exit:
            out.append(("site", site_toggle(rng)))
        elif r < 0.63:
            out.append(("site", site_direct(rng)))
        elif r < 0.68:
            stats["set_error_sites"] = stats.get("set_error_sites", 0) + 1
            out.append(("site", site_set_error(rng, libs)))
            if rng.random() < 0.7:
                out.append(("site", site_query()))
        elif r < 0.74 and depth < 3:
            b = rng.random() < 0.6
            out.append(("if", b, gen_block(rng, depth + 1, libs, funcs, stats, allow_exit),
                        gen_block(rng, depth + 1, libs, funcs, stats, allow_exit) if rng.random() < 0.5 else None))
        elif r < 0.84 and depth < 2:
            out.append(("for", rng.choice([0, 1, 2, 2, 3]), gen_block(rng, depth + 1, libs, funcs, stats, allow_exit)))
        elif r < 0.94 and funcs:
            out.append(("call", rng.choice(funcs)))
        else:
            out.append(("site", site_query()))
    return out


class Renderer:
    def __init__(self, src, rng=None):
        self.src = src
        self.lines = []
        self.rng = rng
        self.loops = 0
        # a script (or an included file) may begin with an interpreter line, a comment or a blank line: each is physical
        # line 1 and every later instruction keeps its own line number (seed C10-w5-m1: a leading `#!` line cut off a file)
        if rng is not None and rng.random() < 0.25:
            self.lines.append(rng.choice(["#!/usr/bin/env duck", "#!/usr/bin/duck", "#!", "# comment", "", "#!/bin/duck --eval"]))

    def emit(self, text, depth):
        ind = "    " * depth if self.rng is None or self.rng.random() < 0.8 else ""
        self.lines.append(ind + text)
        return len(self.lines)

    def block(self, block, depth, files, loop_ids):
        for st in block:
            k = st[0]
            if k == "site":
                for ins in st[1]:
                    parts = []
                    if ins["out"] is not None:
                        parts += [ins["out"], "="]
                    parts.append(ins["cmd"])
                    parts += [G.render_arg(a) for a in ins["args"]]
                    ln = self.emit(" ".join(parts), depth)
                    ins["meta"] = (ln, self.src)
            elif k == "if":
                self.emit("if true" if st[1] else "if false", depth)
                self.block(st[2], depth + 1, files, loop_ids)
                if st[3] is not None:
                    self.emit("else", depth)
                    self.block(st[3], depth + 1, files, loop_ids)
                self.emit("end", depth)
            elif k == "for":
                loop_ids[0] += 1
                n = loop_ids[0]
                self.emit("r%d = range 0 %d" % (n, st[1]), depth)
                self.emit("for i%d in ${r%d}" % (n, n), depth)
                self.block(st[2], depth + 1, files, loop_ids)
                self.emit("end", depth)
                self.emit("release ${r%d}" % n, depth)
            elif k == "call":
                self.emit(st[1], depth)
            elif k == "include":
                self.emit("!include_files " + st[1], depth)
                sub = Renderer(st[1], self.rng)
                sub.block(st[2], 0, files, loop_ids)
                files[st[1]] = "\n".join(sub.lines) + "\n"
        return self


def flatten(block, fdefs, out):
    for st in block:
        k = st[0]
        if k == "site":
            out.extend(st[1])
        elif k == "if":
            if st[1]:
                flatten(st[2], fdefs, out)
            elif st[3] is not None:
                flatten(st[3], fdefs, out)
        elif k == "for":
            for _ in range(st[1]):
                flatten(st[2], fdefs, out)
        elif k == "call":
            flatten(fdefs[st[1]], fdefs, out)
        elif k == "include":
            flatten(st[2], fdefs, out)
    return out


def build(main, fdefs, src, rng=None, need_alias=True):
    """returns (text, files, executed instruction list)"""
    r = Renderer(src, rng)
    files = {}
    loop_ids = [0]
    if need_alias:
        r.emit(ALIAS_DEF, 0)
    for name, body in fdefs.items():
        r.emit("fn " + name, 0)
        r.block(body, 1, files, loop_ids)
        r.emit("end", 0)
        if rng is not None and rng.random() < 0.3:
            r.emit("", 0)
    r.block(main, 0, files, loop_ids)
    text = "\n".join(r.lines) + "\n"
    return text, files, flatten(main, fdefs, [])


def enc_instr(ins):
    ln, src = ins["meta"]
    return "|".join([str(ln), G.enc_opt(src), G.enc_opt(ins["out"]), G.enc_opt(ins["cmd"]), enc_list(ins["args"])])


def model_line(executed, fails):
    prog = ";".join(enc_instr(i) for i in executed) if executed else "-"
    fl = ";".join("%s=%s" % (enc_str(k), enc_str(v)) for k, v in fails.items()) if fails else "-"
    return "\t".join(["R", str(FUEL), prog, fl, enc_list(WATCH)])


def impl_line(text, files, src):
    fl = ";".join(enc_str(p) + "=" + enc_str(c) for p, c in files.items()) if files else "-"
    return "\t".join(["R", G.enc_opt(src), fl, enc_str(text), enc_list(WATCH)])


def agree(m, i, fails):
    m, i = m.split("\t"), i.split("\t")
    if len(m) != 6 or len(i) != 6 or m[0] != i[0]:
        return False
    if m[4] != i[4]:
        return False                                    # snapshots
    if m[0] == "OK":
        return m[5] == i[5]
    if m[0] == "ERR":
        if m[2] != i[2] or m[3] != i[3]:
            return False
        cm = G.canon_model_err(m[1])
        ci = G.canon_impl_err(i[1], set(MSGS) | set(fails.values()) | {"dmsg", "fail", "Error", "Assert failed.", "Invalid input provided."})
        return cm == ci
    return False


def calibrate(ck):
    """failing library / script-implemented commands and their messages, as the implementation reports them"""
    libs, fails, dropped = [], {"myfail": "inner"}, []
    lines, texts = [], []
    for name, args, cat in LIB_CANDIDATES:
        call = " ".join([name] + args)
        text = "x = %s\ne = get_last_error\nl = get_last_error_line\ny = %s\ns = get_last_error\nhsnap x e l y s\n" % (call, call)
        texts.append(text)
        lines.append(impl_line(text, {}, None))
    outs = ck.impl(lines)
    for (name, args, cat), o, text in zip(LIB_CANDIDATES, outs, texts):
        f = o.split("\t")
        ok = False
        if len(f) == 6 and f[0] == "OK" and f[4] != "-":
            snap = f[4].split(";")[0].split(",")
            if len(snap) == 5 and snap[0] == "S" + enc_str("false") and snap[3] == snap[0] and snap[1] != "N" and snap[1] == snap[4] and snap[2] == "S" + enc_str("1"):
                msg = dec_str(snap[1][1:])
                if not any(ch in msg for ch in "$%\\"):
                    libs.append((name, args, cat))
                    fails[name] = msg
                    ok = True
        if not ok:
            dropped.append((name, args, cat, text, o))
    return libs, fails, dropped


def placements(libs):
    """every error kind in every context, exit_on_error on / off, text / file: the small exhaustive part"""
    errs = [I("trigger_error", ["m1"], "x"), I("assert_error", [], "y"), I("hfail", ["boom"], None), I("myfail", [], "x")]
    errs += [I(n, a, "x") for (n, a, _) in libs]
    out = []
    uid = 0
    for e in errs:
        for ctx in ("top", "fn", "loop", "branch", "else", "include", "nested-include", "fn-loop-branch", "twice"):
            for exit_on in (False, True, "toggled", "on+set_error", "off+set_error"):
                def fresh():
                    return dict(e)
                pre = [("site", [I("hfail", ["earlier"], None)]), ("site", site_query())]
                if exit_on is True:
                    pre.append(("site", [I("exit_on_error", ["true"], "t")]))
                elif exit_on in ("on+set_error", "off+set_error"):
                    if exit_on == "on+set_error":
                        pre.append(("site", [I("exit_on_error", ["true"], "t")]))
                    pre.append(("site", [I("set_error", ["sm"], None), I("get_last_error", [], "e"), I("get_last_error_source", [], "s"),
                                         I("hsnap", ["e", "s", "t"])]))
                elif exit_on == "toggled":
                    pre += [("site", [I("exit_on_error", ["true"], "t")]), ("site", [I("exit_on_error", ["false"], "t")])]
                core = [("site", [fresh()]), ("site", site_query())]
                fdefs = {}
                if ctx == "top":
                    body = core
                elif ctx == "fn":
                    fdefs = {"f1": core}
                    body = [("call", "f1")]
                elif ctx == "loop":
                    body = [("for", 2, core)]
                elif ctx == "branch":
                    body = [("if", True, core, [("site", [I("hfail", ["never"], None)])])]
                elif ctx == "else":
                    body = [("if", False, [("site", [I("hfail", ["never"], None)])], core)]
                elif ctx == "include":
                    uid += 1
                    body = [("include", os.path.join(SCRATCH, "inc_pl%d.ds" % uid), core)]
                elif ctx == "nested-include":
                    # an included file that includes another one: the failing command sits in the innermost file, the middle file
                    # fails before and after the directive (seed C10-w6-m1: every instruction an include contributed was stamped
                    # with the path of the DIRECTLY included file, so errors of the inner file named the middle one)
                    uid += 1
                    body = [("include", os.path.join(SCRATCH, "inc_pl%d.ds" % uid),
                             [("site", [I("hfail", ["two words"], None)]), ("site", site_query()),
                              ("include", os.path.join(SCRATCH, "inc_pl%d_inner.ds" % uid), core),
                              ("site", [I("hfail", ["boom"], None)]), ("site", site_query())])]
                elif ctx == "fn-loop-branch":
                    fdefs = {"f1": [("for", 2, [("if", True, core, None)])]}
                    body = [("call", "f1"), ("call", "f1")]
                else:
                    body = core + [("site", [I("trigger_error", ["later"], "y")]), ("site", site_query())]
                out.append((pre + body + [("site", site_query())], fdefs, ctx))
    return out


def sequences(n):
    """every sequence of <= n top-level sites over a 7-letter alphabet (straight-line: instruction index = line - 1,
    so set_error's recorded line is compared exactly; the model program gets one padding instruction for the alias line)"""
    alpha = [lambda: [I("trigger_error", ["m1"], "x")], lambda: [I("hfail", ["m2"], "y")], site_query,
             lambda: [I("exit_on_error", ["true"], "t")], lambda: [I("exit_on_error", ["false"], "t")],
             lambda: [I("get_last_error_line", [], "l"), I("hsnap", ["l", "x", "y"])],
             lambda: [I("set_error", ["sm"], "x")]]
    out = []
    for k in range(1, n + 1):
        for combo in itertools.product(range(len(alpha)), repeat=k):
            out.append(([("site", alpha[j]()) for j in combo], {}, "seq"))
    return out


def replay(ck, data):
    """vcheck C10 --replay file: re-run the recorded case on both sides; status 1 if they still disagree"""
    print("script:\n" + str(data.get("script")))
    if "wire_impl" not in data:
        print("replay: no case line in this file (%s); re-run the check itself" % data.get("kind"))
        return 1
    ck.ocaml_build()
    ck.harness_build(["c10"])
    m, i = ck.model([data["wire_model"]])[0], ck.impl([data["wire_impl"]])[0]
    print("model:          " + m)
    print("implementation: " + i)
    ff = data["wire_model"].split("\t")[3]
    fails = {} if ff == "-" else {dec_str(kv.split("=")[0]): dec_str(kv.split("=")[1]) for kv in ff.split(";")}
    same = agree(m, i, fails)
    print("REPLAY: " + ("agree now" if same else "still disagree"))
    return 0 if same else 1


def run(ck):
    ck.gen_from_source()
    ck.coq_build(["props/C10.vo", "extract/C10_extract.vo"])
    ck.print_assumptions(["DSP.C10"], ["DSP.C10." + t for t in THEOREMS])
    ck.source_tie("eval")
    ck.source_tie("onerror")
    ck.source_tie("runner")
    ck.hygiene()
    ck.ocaml_build()
    ck.harness_build(["c10"])
    model_ok = not any(b.startswith("ocaml") for b in ck.broken) and os.path.exists(
        os.path.join(vlib.ROOT, "ocaml", "bin", "c10_model"))
    os.makedirs(SCRATCH, exist_ok=True)
    thorough = ck.tier == "thorough"
    rng = ck.rng
    found = False
    if not model_ok:
        ck.coverage.update({"evaluations": 0, "distinct_nontrivial": 0, "rule": "model did not build", "samples": []})
        ck.report_broken(False)
        return

    libs, fails, dropped = calibrate(ck)
    # a candidate that does not fail in the shape C10_step / C10_alias predict (output "false", some message m
    # recorded with line 1, the same m the second time) is itself a disagreement with the model
    for name, args, cat, text, o in dropped:
        found = True
        if len(ck.violations) >= 3:
            continue
        ck.violation({
            "kind": "a failing %s command's error did not surface as the model predicts for any message" % ("script-implemented" if cat == "script" else "library"),
            "script": text, "implementation": o,
            "model": "snapshot (x, e, l, y, s) = (false, m, 1, false, m) for some message m without '$', '%', backslash",
            "theorems": ["C10_step", "C10_alias"], "seed": ck.seed,
            "replay_cmd": "printf '%s\\n' | .cache/cargo-target/release/c10" % impl_line(text, {}, None).replace("\t", "\\t")})
    dropped = [d[0] for d in dropped]
    stats = {"placement_static": {}, "mode": {"text": 0, "file": 0}, "model_outcome": {}, "with_include": 0,
             "errors_executed": {}, "errors_per_run": {}, "exit_on_error_fatal": 0, "calibrated": sorted(fails), "dropped_candidates": dropped}
    cases = []        # (main, fdefs, src, kind)
    k = 0
    for main, fdefs, ctx in placements(libs):
        for src in (None, os.path.join(SCRATCH, "pl%d.ds" % k)):
            if src is None:
                cases.append((main, fdefs, src, "placement:" + ctx))
            else:
                cases.append((_retarget(_copy(main), "f"), {n: _copy(b) for n, b in fdefs.items()}, src, "placement:" + ctx))
        k += 1
    n_place = len(cases)
    for main, fdefs, _ in sequences(5 if thorough else 4):
        cases.append((main, fdefs, None, "sequence"))
    n_seq = len(cases) - n_place
    n_rand = 120000 if thorough else 12000
    nontriv = set()          # hashes of distinct non-trivial cases
    err_cmds = {"trigger_error", "assert_error", "hfail", "myfail"} | set(fails)
    samples = []
    n_total = [0]

    def process(cases):
        """render, run both sides, compare; nothing is kept afterwards (thorough tier: bounded memory)"""
        nonlocal found
        m_lines, i_lines, texts = [], [], []
        for main, fdefs, src, kind in cases:
            text, files, executed = build(main, fdefs, src, rng if kind == "random" else None)
            if kind == "sequence":
                executed = [{"cmd": None, "args": [], "out": None, "meta": (1, src)}] + executed
            m_lines.append(model_line(executed, fails))
            i_lines.append(impl_line(text, files, src))
            texts.append((text, files, executed))
        if not samples:
            samples.extend([texts[0][0], texts[len(texts) // 4][0]])
        m_out = ck.model(m_lines)
        i_out = ck.impl(i_lines)
        n_total[0] += len(cases)
        for k, (m, i) in enumerate(zip(m_out, i_out)):
            main, fdefs, src, kind = cases[k]
            text, files, executed = texts[k]
            f = m.split("\t")
            key = f[0] + (":" + f[1].split(" ")[0] if len(f) > 1 else "")
            stats["model_outcome"][key] = stats["model_outcome"].get(key, 0) + 1
            stats["mode"]["file" if src else "text"] += 1
            if files:
                stats["with_include"] += 1
            nerr = sum(1 for ins in executed if ins["cmd"] in err_cmds)
            stats["errors_per_run"][min(nerr, 10)] = stats["errors_per_run"].get(min(nerr, 10), 0) + 1
            if f[0] == "ERR":
                stats["exit_on_error_fatal"] += 1
            if nerr >= 2 or (nerr >= 1 and kind.startswith("placement")):
                nontriv.add(hash(m_lines[k]))
            if not agree(m, i, fails):
                found = True
                if len(ck.violations) < 5:
                    ck.violation({
                        "kind": "model (Runner + SdkErr, C10_step / C10_latest) vs implementation", "case_kind": kind,
                        "script": text, "included_files": files, "source_file": src,
                        "executed_sites(line,source,out,cmd,args)": [[ins["meta"][0], ins["meta"][1], ins["out"], ins["cmd"], ins["args"]] for ins in executed][:80],
                        "model": m, "implementation": i,
                        "fields": "status, detail, line, source, snapshots (hsnap e l s x y t), watched variables",
                        "wire_impl": i_lines[k], "wire_model": m_lines[k], "theorems": ["C10_step", "C10_latest", "C10_alias"], "seed": ck.seed,
                        "replay_cmd": "printf '%s\\n' | .cache/cargo-target/release/c10" % i_lines[k].replace("\t", "\\t")})
        if cases[-1][3] == "random":
            samples[2:] = [texts[-1][0]]

    process(cases)
    made = 0
    while made < n_rand:
        cases = []
        while made < n_rand and len(cases) < 6000:
            nf = rng.choice([0, 0, 1, 2, 3])
            fdefs = {}
            allow_exit = rng.random() < 0.35
            for j in range(nf):
                fdefs["f%d" % (j + 1)] = gen_block(rng, 1, libs, list(fdefs), stats, allow_exit)
            main = gen_block(rng, 0, libs, list(fdefs), stats, allow_exit)
            if rng.random() < 0.25:
                pos = rng.randint(0, len(main))
                inc_body = gen_block(rng, 1, libs, list(fdefs), stats, allow_exit)
                if rng.random() < 0.4:     # the included file includes a further file (and that one sometimes a third)
                    inner = gen_block(rng, 1, libs, list(fdefs), stats, allow_exit)
                    if rng.random() < 0.3:
                        inner.insert(rng.randint(0, len(inner)), ("include", os.path.join(SCRATCH, "incnn%d.ds" % made), gen_block(rng, 1, libs, [], stats, allow_exit)))
                    inc_body.insert(rng.randint(0, len(inc_body)), ("include", os.path.join(SCRATCH, "incn%d.ds" % made), inner))
                main.insert(pos, ("include", os.path.join(SCRATCH, "inc%d.ds" % made), inc_body))
                if rng.random() < 0.3:
                    main.insert(rng.randint(0, len(main)), ("include", os.path.join(SCRATCH, "incb%d.ds" % made), gen_block(rng, 1, libs, [], stats, allow_exit)))
            main.append(("site", site_query()))
            if len(flatten(main, fdefs, [])) > 160:
                continue
            src = os.path.join(SCRATCH, "r%d.ds" % made) if rng.random() < 0.4 else None
            cases.append((main, fdefs, src, "random"))
            made += 1
        process(cases)

    # off-domain observation (not compared): an error message containing ${...} is expanded again when it is
    # handed to on_error (the runner binds the synthetic instruction's arguments)
    probe = impl_line('v = set SECRET\nx = trigger_error "value \\${v} here"\ne = get_last_error\nhsnap e\n', {}, None)
    po = ck.impl([probe])[0].split("\t")
    rebind = len(po) == 6 and po[4] == "S" + enc_str("value SECRET here")
    if rebind:
        if any(kf.get("class") == "on_error_rebind" or "on_error_rebind" in str(kf.get("id", "")) + str(kf.get("what", "")) + str(kf.get("description", ""))
               for kf in ck.open_findings()):
            ck.known("error message re-expanded when reported to on_error (message containing ${v})")
    ck.coverage.update({
        "evaluations": n_total[0],
        "distinct_nontrivial": len(nontriv),
        "rule": "every error kind (trigger_error, assert_error, harness command, eval-implemented alias, calibrated failing library and "
                "script-implemented commands) x 9 placements (top level, function body, loop body, taken branch, else branch, included file, file included by an included file, "
                "function+loop+branch called twice, followed by a later error) x exit_on_error off / on / toggled x text / file (%d cases); "
                "every sequence of <= %d top-level sites over 7 site kinds incl. set_error (%d); %d random structured programs (<= 3 functions, nesting <= 3, "
                "includes, direct on_error calls, exit_on_error toggles in 35%%, 40%% from file); non-trivial = distinct program executing >= 2 "
                "failing commands (or a placement case)" % (n_place, 5 if thorough else 4, n_seq, n_rand),
        "exhaustive": True,
        "exhaustive_part": {"placements": n_place, "sequences": n_seq},
        "samples": samples,
        "distribution": stats,
        "off_domain_observations": {"error message with ${v} re-expanded when reported to on_error": rebind},
        "partial": "the executed-site sequence is computed by the generator from constant conditions / fixed iteration counts; the SDK's flow "
                   "commands themselves are C04/C05's subject.  C10_alias is proved over a model of eval_instructions with the wrapper's argument "
                   "binding / cleanup abstracted; the correspondence run covers real script-implemented commands end to end.",
    })
    ck.report_broken(found)
    ck.assumptions += [
        "error messages, sources and arguments contain no '$', '%' or backslash: the runner binds the synthetic on_error instruction's arguments like any others, so such messages are re-expanded (reported as a finding, outside the compared domain)",
        "the line set_error records (the instruction index) is compared exactly only in the straight-line sequence family; in structured programs set_error is always followed at once by a failing command, so only its message, the cleared source and the exit_on_error behaviour after it are compared",
        "commands other than on_error / set_error do not write the last-error record (hypothesis of C10_latest; true of the SDK by inspection of the state key's users)",
        "the control-flow path of generated programs is computed by the generator (constant conditions, fixed iteration counts)",
        "messages of failing library commands are taken from the implementation (calibration run), so a change of wording is not reported",
    ]


def _copy(block):
    out = []
    for st in block:
        if st[0] == "site":
            out.append(("site", [dict(i) for i in st[1]]))
        elif st[0] == "if":
            out.append(("if", st[1], _copy(st[2]), _copy(st[3]) if st[3] is not None else None))
        elif st[0] == "for":
            out.append(("for", st[1], _copy(st[2])))
        elif st[0] == "include":
            out.append(("include", st[1], _copy(st[2])))
        else:
            out.append(st)
    return out


def _retarget(block, suffix):
    """give the included files of a copied program their own paths (cases run in parallel), at every include depth"""
    return [("include", st[1] + suffix, _retarget(st[2], suffix)) if st[0] == "include" else st for st in block]
