"""C06 — conditions: truthiness table, and-of-ors evaluation, four consumers.

Formal side: props/C06.v (model Cond.v of eval_condition_for_slice / is_true, spec CondSpec.v).
Correspondence: the extracted model and the four real consumers (not, if, elseif, while) are run
on (a) every token sequence up to a length over a 12-token alphabet (well-formed or not: value
or error class must agree), (b) condition trees generated from the theorem's domain, where the
extracted specification `sem` is the oracle, (c) truthiness of single values incl. case variants."""
import itertools
import vlib
from vlib import enc_str, enc_list, dec_list, dec_str

THEOREMS = ["C06_tables", "C06_truth", "C06_truth_absent", "C06_eval", "C06_and_of_ors",
            "C06_total", "C06_nonvacuous",
            # index-faithful model (CondIx.v): slice / index / i32-counter arithmetic with explicit Panic
            "C06_ix_total", "C06_ix_refines"]
# further theorems about the index-faithful model, in props/C06ix.v (own module: its Print Assumptions run goes in parallel)
IX_THEOREMS = ["C06_ix_terminates", "C06_ix_eval", "C06_ix_checked", "C06_ix_bounds_exact", "C06_ix_dispatch"]
ALPHA = ["true", "false", "and", "or", "(", ")", "", "0", "no", "NO", "False", "x"]
CORE = ["true", "false", "and", "or", "(", ")"]
KEYWORDS = {"and", "or", "(", ")"}
VALUES = ["true", "false", "", "0", "no", "NO", "No", "nO", "False", "FALSE", "fAlSe", "x", "1", "yes",
          "00", "0.0", " ", "false ", " no", "nope", "off", "null", "none", "é", "ＦＡＬＳＥ", "faLſe",
          "K", "falſe", "ɴo", "0́", "-0", "+0", "f", "n", "FALSE\n", "\tno", "${x}", "\"\"",
          # atoms that merely CONTAIN parentheses are ordinary (truthy) strings, not groups
          "(0)", "(no)", "()", "((0))", "(FALSE)", "(x", "x)", ":)", "f(0)", ")(", "( 0 )", "0)", "(false"]


def rand_tree(rng, depth, size):
    """prefix notation of a random condition tree (list of tokens)"""
    def atom(d):
        r = rng.random()
        if d > 0 and r < 0.30:
            return ["g"] + cond(d - 1, rng.randint(1, 3))
        if r < 0.38:
            return ["e"]
        return ["v:" + enc_str(rng.choice(VALUES))]

    def cond(d, n):
        if n <= 1:
            return ["a"] + atom(d)
        return [rng.choice("&|")] + atom(d) + cond(d, n - 1)
    return cond(depth, size)


def all_trees(max_atoms, vals):
    """every tree with at most max_atoms value/empty atoms, depth <= 2"""
    out = []

    def atoms(budget, d):
        res = [(["v:" + enc_str(v)], 1) for v in vals] + [(["e"], 1)]
        if d > 0:
            for (c, k) in conds(budget, d - 1):
                res.append((["g"] + c, k))
        return [(a, k) for (a, k) in res if k <= budget]

    def conds(budget, d):
        res = []
        for (a, k) in atoms(budget, d):
            res.append((["a"] + a, k))
            if budget - k >= 1:
                for (c, k2) in conds(budget - k, d):
                    for op in "&|":
                        res.append(([op] + a + c, k + k2))
        return res
    for (c, _) in conds(max_atoms, 2):
        out.append(c)
    return out


def run(ck):
    ck.gen_from_source()
    ok, _ = ck.coq_build(["props/C06.vo", "props/C06ix.vo", "extract/C06_extract.vo"])
    ck.print_assumptions(["DSP.C06", "DSP.C06ix"], ["DSP.C06." + t for t in THEOREMS] + ["DSP.C06ix." + t for t in IX_THEOREMS])
    ck.source_tie("cond")
    ck.source_tie("condslice")
    ck.hygiene()
    ck.ocaml_build()
    ck.harness_build(["c06"])
    model_ok = not any(b.startswith("ocaml") for b in ck.broken) and vlib.os.path.exists(
        vlib.os.path.join(vlib.ROOT, "ocaml", "bin", "c06_model"))

    thorough = ck.tier == "thorough"
    rng = ck.rng
    tcases = []   # token lists
    # corpus: witnesses of past findings, always first
    tcases.append(["(", "false", ")", "or", "true"])                 # F1
    tcases.append(["(", "(", "false", ")", ")", "or", "true", "and", "(", ")", "or", "x"])
    # deep and wide groups: the sub-slice index arithmetic (start_block / index / counter) at depth
    for d in (40, 300):
        tcases.append(["("] * d + ["true"] + [")"] * d)
        tcases.append(["x", "and"] + ["("] * d + ["false", "or", "(", ")", "or", "no"] + [")"] * d + ["or", "(", "1", ")"])
        tcases.append(["("] * d + ["true"] + [")"] * (d - 1))            # Missing ')'
        tcases.append(["("] * d + ["true"] + [")"] * (d + 1))            # Unexpected ')'
        tcases.append((["(", "true", ")", "and"] * d) + ["(", "(", "0", ")", "or", "y", ")"])
    n_alpha = 5 if thorough else 4
    n_core = 7 if thorough else 6
    for n in range(1, n_alpha + 1):
        tcases.extend(list(t) for t in itertools.product(ALPHA, repeat=n))
    for n in range(n_alpha + 1, n_core + 1):
        tcases.extend(list(t) for t in itertools.product(CORE, repeat=n))
    n_exh = len(tcases)
    # random malformed / long token streams
    for _ in range(20000 if thorough else 3000):
        n = rng.randint(1, 60 if rng.random() < 0.2 else 14)
        tcases.append([rng.choice(ALPHA + VALUES) if rng.random() < 0.9 else rng.choice(["(", ")"]) for _ in range(n)])
    # single values: truthiness incl. case variants
    singles = list(VALUES)
    for w in ["false", "no", "0"]:
        for mask in range(1 << len(w)):
            singles.append("".join(c.upper() if mask >> i & 1 else c for i, c in enumerate(w)))
    for v in singles:
        if v not in KEYWORDS:
            tcases.append([v])
    # trees: the theorem's domain
    trees = all_trees(4 if thorough else 3, ["true", "false", "x", "NO"])
    n_tree_exh = len(trees)
    for _ in range(60000 if thorough else 8000):
        trees.append(rand_tree(rng, rng.randint(0, 4), rng.randint(1, 8)))

    t_lines = ["T\t" + enc_list(t) for t in tcases]
    c_lines = ["C\t" + " ".join(t) for t in trees]

    found = False
    dist = {}
    if model_ok:
        m_t = ck.model(t_lines)
        m_c = ck.model(c_lines)
        # the tree cases give their tokens; feed them to the implementation
        c_tokens = [o.split("\t")[0] for o in m_c]
        i_t = ck.impl(t_lines)
        i_c = ck.impl(["T\t" + f for f in c_tokens])
        low = ck.impl(["LOWER\t" + enc_str("0falseno")])[0]
        ck.obligations.append("lower-casing fact (all scalar values, exhaustive)")
        if low.startswith("0 "):
            ck.discharged.append("lower-casing fact")
        else:
            ck.broken.append("lower-casing fact: " + low)
        nontriv = set()
        # the model verdict is the index-faithful model's; its driver also evaluates the suffix model and the
        # overflow-checked index model (the harness's build profile), which the refinement theorems say agree
        ck.obligations.append("index-faithful (wrapping and overflow-checked) and suffix models agree on every case (C06_ix_refines, C06_ix_checked)")
        ixdiff = [(t, m) for t, m in zip(tcases, m_t) if m.startswith("IXDIFF")] + \
                 [(tr, m) for tr, m in zip(trees, m_c) if "IXDIFF" in m]
        if ixdiff:
            ck.broken.append("index model / suffix model disagree on %r: %s" % ixdiff[0])
        else:
            ck.discharged.append("index-faithful (wrapping and overflow-checked) and suffix models agree")
        n_groups = sum(1 for t in tcases if "(" in t and ")" in t)
        for k, (t, m, i) in enumerate(zip(tcases, m_t, i_t)):
            dist[m[:1]] = dist.get(m[:1], 0) + 1
            if len(t) >= 3 and m in ("T", "F"):
                nontriv.add(" ".join(t))
            cons = i.split(" ")
            if any(c != m for c in cons) or len(cons) != 4:
                found = True
                ck.violation({"kind": "model-vs-implementation", "tokens": t, "wire": t_lines[k],
                              "model": m, "implementation(not,if,elseif,while)": i,
                              "theorems": ["C06_eval", "C06_total", "C06_ix_total", "C06_ix_refines"], "seed": ck.seed,
                              "replay_cmd": "printf '%s\\n' | .cache/cargo-target/release/c06" % t_lines[k].replace("\t", "\\t")})
                if len(ck.violations) >= 5:
                    break
        for k, (tr, m, i) in enumerate(zip(trees, m_c, i_c)):
            f = m.split("\t")
            toks, mv, sv = f[0], f[1], f[2]
            dist["tree:" + sv] = dist.get("tree:" + sv, 0) + 1
            nontriv.add(toks)
            cons = i.split(" ")
            if mv != sv or any(c != sv for c in cons) or len(cons) != 4:
                found = True
                ck.violation({"kind": "spec-vs-implementation (in-domain tree)", "tree": " ".join(tr),
                              "tokens": dec_list(toks), "spec_sem": sv, "model": mv,
                              "implementation(not,if,elseif,while)": i, "theorems": ["C06_eval"], "seed": ck.seed,
                              "replay_cmd": "printf 'T\\t%s\\n' | .cache/cargo-target/release/c06" % toks})
                if len(ck.violations) >= 5:
                    break
        # history stream: one and the same if / elseif / while / not LINE (same script, same context and state) evaluates
        # several statements of equal length in a row (A, B, A ...); each verdict must be the stateless verdict of its own list
        hist = []
        pool = [t for t, m in zip(tcases[:n_exh], m_t[:n_exh]) if 2 <= len(t) <= 5 and m in ("T", "F")]
        by_len = {}
        for t, m in zip(tcases[:n_exh], m_t[:n_exh]):
            if 1 <= len(t) <= 5 and m in ("T", "F") and t[0] not in KEYWORDS:
                by_len.setdefault((len(t), m), []).append(t)
        for _ in range(3000 if thorough else 400):
            n = rng.randint(1, 5)
            if (n, "T") not in by_len or (n, "F") not in by_len:
                continue
            a_, b_ = rng.choice(by_len[(n, "T")]), rng.choice(by_len[(n, "F")])
            seq = rng.choice([[a_, b_, a_], [b_, a_, b_], [a_, b_, a_, b_], [a_, a_, b_, a_]])
            hist.append(seq)
        h_lines = ["TS\t" + "\t".join(enc_list(t) for t in seq) for seq in hist]
        h_out = ck.impl(h_lines)
        # stateless model verdicts of the members
        flat = [t for seq in hist for t in seq]
        flat_m = ck.model(["T\t" + enc_list(t) for t in flat])
        pos = 0
        for seq, line, o in zip(hist, h_lines, h_out):
            want = flat_m[pos:pos + len(seq)]
            pos += len(seq)
            got = o.split(";")
            dist["history"] = dist.get("history", 0) + 1
            bad = len(got) != len(seq) or any(g.split(" ") != [w] * 4 for g, w in zip(got, want))
            if bad and len(ck.violations) < 5:
                found = True
                ck.violation({"kind": "history: the same if / elseif / while / not line evaluated for several statements in one "
                                      "context; a verdict differs from the stateless verdict of its own statement",
                              "statements": seq, "wire": line, "model_per_statement": want,
                              "implementation(not,if,elseif,while) per statement": got,
                              "theorems": ["C06_eval", "C06_total"], "seed": ck.seed})
            elif bad:
                found = True
        ck.coverage.update({
            "evaluations": len(tcases) + len(trees) + len(flat),
            "distinct_nontrivial": len(nontriv),
            "rule": "every token sequence of length <= %d over %d tokens and <= %d over the 6 core tokens (exhaustive, "
                    "well-formed or not; verdict or error class compared for not/if/elseif/while), random token streams, "
                    "single values incl. all ASCII-case variants of the falsy literals, every condition tree with <= %d atoms "
                    "(depth <= 2) and random trees to depth 4 with the extracted spec `sem` as oracle; non-trivial = distinct "
                    "token list with >= 3 tokens that evaluates to a value, or any in-domain tree" % (n_alpha, len(ALPHA), n_core, 4 if thorough else 3),
            "exhaustive": True,
            "exhaustive_part": {"token_sequences": n_exh, "trees": n_tree_exh},
            "samples": [tcases[0], tcases[n_exh // 2], " ".join(trees[0]), " ".join(trees[-1])],
            "verdict_distribution": dist,
            "model_run": "index-faithful CondIx.eval_slice_ix (release profile) — cross-checked per case against the "
                         "overflow-checked index model (the harness's build profile) and the suffix model Cond.eval_slice",
            "token_lists_with_a_group": n_groups,
        })
    else:
        ck.coverage.update({"evaluations": 0, "distinct_nontrivial": 0, "rule": "model did not build", "samples": []})
    ck.report_broken(found)
    ck.assumptions += [
        "Rust's to_lowercase agrees with ASCII lower-casing on the question 'is the result one of the falsy literals' "
        "(checked for all 1,112,064 scalar values on every run, harness c06 LOWER)",
        "the i32 `counter` of eval_condition_for_slice cannot overflow below 2^31 tokens: the index-faithful model equals the "
        "suffix model there in both build profiles (C06_ix_refines, C06_ix_checked); beyond it the release build wraps "
        "(still no panic: C06_ix_total holds for every length) and the debug build panics on `counter + 1` (needs >= 48 GiB of arguments; not testable)",
        "eval_condition's command branch (eval_with_instructions) enters the dispatch model as a function argument (C06_ix_dispatch assumes it does not panic)",
        "the first token is not a registered command (otherwise the statement is evaluated as a command call: C09)",
    ]


def agree(m, i):
    v = m.split("\t")[1] if "\t" in m else m
    return all(c == v for c in i.split(" ")) and len(i.split(" ")) == 4
