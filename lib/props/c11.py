"""C11 — variable commands and the scope stack behave like a map and a stack of maps.

Formal side: props/C11.v (M = Scope.v, the Rust-shaped push/pop/unset/var commands plus the
runner's update_output; S = ScopeSpec.v, a plain map with a stack of saved maps; ScopeProof.v).
Correspondence run: every history is executed step by step as one-line scripts on a carried SDK
context (harness c11) and by the extracted M; after every step the command's output (value / none /
error) and the whole variable map are compared.  The driver also runs the extracted S next to M
(SPECDIFF).  A history on which the implementation differs from M but equals S with the other
admissible treatment of a name that is undefined when copied on pop (H0) is tolerated, because the
property leaves exactly that open."""
import itertools
import vlib
from vlib import enc_str, dec_str

THEOREMS = [
    "C11_tables", "C11_refines", "C11_refines_step", "C11_nopanic", "C11_pop_empty", "C11_push_spec", "C11_pop_spec",
    "C11_unset_spec", "C11_lifo", "C11_lifo_M", "C11_names", "C11_pol_agree", "C11_nonvacuous",
]
EXE = ".cache/cargo-target/release/c11"
N3 = ["a", "ab", "a::b"]
V3 = ["1", "", "a"]


def st(out, cmd, *args):
    return " ".join(["-" if out is None else enc_str(out), cmd] + [enc_str(a) for a in args])


def show(step):
    t = step.split(" ")
    out = "" if t[0] == "-" else dec_str(t[0]) + " = "
    a = [repr(dec_str(x)) for x in t[2:]]
    name = {"S": "set", "U": "unset", "B": "set_by_name", "G": "get_by_name", "D": "is_defined",
            "A": "get_all_var_names", "X": "unset_all_vars" + (" --prefix" if a else ""), "C": "clear_scope",
            "P": "scope_push_stack", "P+": "scope_push_stack --copy", "Q": "scope_pop_stack",
            "Q+": "scope_pop_stack --copy"}[t[1]]
    return out + name + (" " + " ".join(a) if a else "")


def copy_lists(names):
    ls = [[]] + [[n] for n in names] + [[x, y] for x in names for y in names]
    return ls


def full_alphabet():
    al = []
    for n in N3:
        for v in V3:
            al.append(st(n, "S", v))
    al += [st(None, "U", n) for n in N3] + [st(None, "U", "a", "ab")]
    for n in N3:
        for v in ["1", ""]:
            al.append(st(None, "B", n, v))
        al.append(st(None, "B", n))
    al += [st(None, "G", n) for n in N3] + [st("a", "G", "ab"), st("ab", "G", "zz")]
    al += [st(None, "D", n) for n in N3] + [st("a", "D", "a")]
    al.append(st(None, "A"))
    al += [st(None, "X"), st(None, "X", "a"), st(None, "X", "ab"), st(None, "X", "")]
    al += [st(None, "C", "a"), st(None, "C", "ab")]
    al.append(st(None, "P"))
    al.append(st(None, "Q"))
    for l in copy_lists(N3):
        al.append(st(None, "P+", *l))
        al.append(st(None, "Q+", *l))
    al += [st("a", "Q"), st("a", "P+", "a")]
    return al


def small_alphabet(thorough):
    al = [st("a", "S", "1"), st("ab", "S", "1"), st("a::b", "S", "1"), st("a", "S", ""), st(None, "U", "a"),
          st(None, "X"), st(None, "X", "a"), st(None, "C", "a"), st(None, "P"), st(None, "Q")]
    lists = [["a"], ["a", "a"], ["ab", "zz"], ["a::b", "a"]]
    if thorough:
        al += [st("ab", "S", "2"), st("a::b", "S", ""), st(None, "U", "ab", "a::b"), st(None, "B", "ab"), st(None, "P+"), st(None, "Q+")]
        lists += [["ab"], ["zz"], ["a", "ab"], ["a::b", "a::b"]]
    for l in lists:
        al.append(st(None, "P+", *l))
        al.append(st(None, "Q+", *l))
    return al


WEIRD_NAMES = ["a", "b", "ab", "a::b", "a::b::c", "b::", "x y", "é", "", "--copy", "--prefix", "scope::x", "scope::unsetx",
               "${a}", "\"q\"", "#h", "1", "true", "\U0001F986", "A", "a.b"]
IDENT = ["a", "b", "ab", "a::b", "a::b::c", "b::", "1", "true", "A", "a.b", "scope::x"]
WEIRD_VALUES = ["1", "", "a", "true", "false", "a b", " lead", "trail ", "${a}", "%{a}", "\"", "\\", "#c", "x\ny", "--copy",
                "handle:x", "é\U0001F986", "0", "\t",
                # words that are keywords elsewhere: a value is a value (seed C11-w6-m2: `x = set or` became an error because the
                # single-value form was folded into the `or`-chain parser)
                "or", "and", "OR", "not", "(", ")", "=", "in", "end"]


def rand_history(rng, maxlen, maxdepth):
    n = rng.randint(4, maxlen)
    names = rng.sample(WEIRD_NAMES, rng.randint(3, 6))
    idents = [x for x in names if x in IDENT] or ["a"]
    depth = 0
    ops = []
    info = {"pop_empty": 0, "maxdepth": 0}

    def cl():
        if rng.random() < 0.25:
            # a long list over one or two names: the same name several times, the list as long as or longer than the number of
            # defined variables (seed C11-w7-m2: a push fast path "the copy list covers every variable" compared lengths only)
            base = rng.sample(names, rng.randint(1, 2))
            return [rng.choice(base) for _ in range(rng.randint(2, 7))]
        k = rng.choice([0, 1, 1, 2, 2, 3])
        return [rng.choice(names + ["zz"]) for _ in range(k)]
    for _ in range(n):
        r = rng.random()
        if r < 0.22:
            ops.append(st(rng.choice(idents), "S", rng.choice(WEIRD_VALUES)))
        elif r < 0.34:
            if rng.random() < 0.7:
                ops.append(st(rng.choice([None, None, rng.choice(idents)]), "B", rng.choice(names), rng.choice(WEIRD_VALUES)))
            else:
                ops.append(st(rng.choice([None, rng.choice(idents)]), "B", rng.choice(names)))
        elif r < 0.42:
            ops.append(st(None, "U", *[rng.choice(names) for _ in range(rng.randint(1, 3))]))
        elif r < 0.50:
            ops.append(st(rng.choice([None, None, rng.choice(idents)]), rng.choice("GD"), rng.choice(names + ["zz"])))
        elif r < 0.55:
            ops.append(st(None, "A"))
        elif r < 0.60:
            ops.append(st(None, "X") if rng.random() < 0.3 else st(None, "X", rng.choice(["a", "b", "", "a::", "scope::", "x", "ab"])))
        elif r < 0.64:
            ops.append(st(None, "C", rng.choice(["a", "b", "a::b", "scope", "", "ab"])))
        elif r < 0.83:
            if depth < maxdepth:
                depth += 1
                out = rng.choice([None, None, None, rng.choice(idents)])
                ops.append(st(out, "P") if rng.random() < 0.25 else st(out, "P+", *cl()))
            else:
                ops.append(st(rng.choice(idents), "S", "deep"))
        else:
            if depth == 0:
                info["pop_empty"] += 1
                if rng.random() < 0.6:
                    ops.append(st(rng.choice(idents), "S", "x"))
                    continue
            else:
                depth -= 1
            out = rng.choice([None, None, None, rng.choice(idents)])
            ops.append(st(out, "Q") if rng.random() < 0.25 else st(out, "Q+", *cl()))
        info["maxdepth"] = max(info["maxdepth"], depth)
    return ops, info


def replay(ck, data):
    """vcheck C11 --replay file: re-run the recorded history on both sides"""
    wire = data.get("wire")
    if wire is None:
        print("replay: this file names a broken obligation, not an input; re-run the check itself")
        return 1
    ck.ocaml_build()
    ck.harness_build(["c11"])
    m, i = ck.model([wire])[0], ck.impl([wire])[0]
    print("history:        ", [show(x) for x in wire.split("\t")[1:]])
    print("model:          " + m)
    print("implementation: " + i)
    same = m == i or ck.model(["H0" + wire[1:]])[0] == i
    print("REPLAY: " + ("agree now" if same else "still disagree"))
    return 0 if same else 1


def run(ck):
    ck.gen_from_source()
    ck.coq_build(["props/C11.vo", "extract/C11_extract.vo"])
    ck.print_assumptions(["DSP.C11"], ["DSP.C11." + t for t in THEOREMS])
    ck.source_tie("scope_clear")
    ck.source_tie("var")
    ck.hygiene()
    ck.ocaml_build()
    ck.harness_build(["c11"])
    model_ok = not any(b.startswith("ocaml") for b in ck.broken) and vlib.os.path.exists(
        vlib.os.path.join(vlib.ROOT, "ocaml", "bin", "c11_model"))
    thorough = ck.tier == "thorough"
    rng = ck.rng
    found = [False]
    stats = {"histories": 0, "steps": 0, "nontrivial": 0, "errors": 0, "pops_ok": 0, "pushes": 0, "kinds": {},
             "alt_policy_tolerated": 0, "maxlen": 0, "maxdepth": 0}
    samples = []

    def report(kind, line, m, i):
        if len(ck.violations) >= 5:
            return
        found[0] = True
        steps = line.split("\t")[1:]
        mf, imf = m.split("\t"), i.split("\t")
        k = next((j for j in range(max(len(mf), len(imf))) if j >= len(mf) or j >= len(imf) or mf[j] != imf[j]), None)
        ck.violation({"kind": kind, "history": [show(s) for s in steps], "first_difference_at_step": k,
                      "model_at_step": mf[k] if k is not None and k < len(mf) else None,
                      "implementation_at_step": imf[k] if k is not None and k < len(imf) else None,
                      "wire": line, "model": m, "implementation": i, "seed": ck.seed,
                      "theorems": ["C11_refines", "C11_nopanic", "C11_lifo"],
                      "replay_cmd": "printf '%s\\n' | " % line.replace("\t", "\\t") + EXE + "   # and | ocaml/bin/c11_model"})

    def shrink(line):
        ops = line.split("\t")[1:]
        for _ in range(80):
            if len(ops) <= 1:
                break
            cands = ["\t".join(["H"] + ops[:k] + ops[k + 1:]) for k in range(len(ops))]
            m, i = ck.model(cands), ck.impl(cands)
            bad = [k for k in range(len(cands)) if m[k] != i[k]]
            if not bad:
                break
            ops = ops[:bad[0]] + ops[bad[0] + 1:]
        return "\t".join(["H"] + ops)

    def compare(lines, what):
        if not lines or len(ck.violations) >= 5:
            return
        m = ck.model(lines)
        i = ck.impl(lines)
        stats["kinds"][what] = stats["kinds"].get(what, 0) + len(lines)
        diff = []
        for k, line in enumerate(lines):
            f = m[k].split("\t")
            stats["histories"] += 1
            stats["steps"] += len(f)
            ne = sum(1 for x in f if x.startswith("E;"))
            stats["errors"] += ne
            npop = sum(1 for s in line.split("\t")[1:] if s.split(" ")[1] in ("Q", "Q+"))
            npush = sum(1 for s in line.split("\t")[1:] if s.split(" ")[1] in ("P", "P+"))
            stats["pushes"] += npush
            stats["pops_ok"] += max(0, npop - ne)
            if npush and npop > 0:
                stats["nontrivial"] += 1
            if "SPECDIFF" in m[k] or "CRASH" in m[k]:
                report("extracted M vs extracted S (proved equal: extraction sanity) / model crash", line, m[k], i[k])
            elif m[k] != i[k]:
                diff.append(k)
        if diff:
            alt = ck.model(["H0" + lines[k][1:] for k in diff])
            for j, k in enumerate(diff):
                if alt[j] == i[k]:
                    stats["alt_policy_tolerated"] += 1
                    continue
                s = shrink(lines[k])
                ms, is_ = ck.model([s])[0], ck.impl([s])[0]
                if ms == is_:
                    s, ms, is_ = lines[k], m[k], i[k]
                report("model-vs-implementation", s, ms, is_)
                if len(ck.violations) >= 5:
                    return

    if model_ok:
        # corpus: F4 witnesses and the duplicate-name trap of a naive repair
        corpus = [
            [st("a", "S", "1"), st(None, "P+", "a", "nope"), st(None, "Q+", "nope"), st(None, "Q")],
            [st("a", "S", "1"), st(None, "P+", "a", "a"), st(None, "G", "a"), st(None, "Q+", "a", "a"), st(None, "A")],
            [st(None, "Q"), st("a", "Q+", "a"), st(None, "A")],
            [st("a", "S", "1"), st(None, "P"), st("a", "S", "2"), st("b", "S", "3"), st(None, "P+", "b"), st(None, "Q+", "b", "a"),
             st(None, "Q+", "b"), st(None, "A")],
            [st("a", "S", "1"), st("a::b", "S", "2"), st("ab", "S", "3"), st(None, "C", "a"), st(None, "X", "a"), st(None, "A")],
            [st("a", "S", "1"), st("b", "S", "2"), st(None, "U", "a", "b", "zz"), st(None, "U"), st(None, "A")],
        ]
        compare(["\t".join(["H"] + c) for c in corpus], "corpus")
        samples.append([show(s) for s in corpus[0]])
        # exhaustive small scopes
        FULL = full_alphabet()
        SMALL = small_alphabet(thorough)
        n_exh = 0
        for n in (1, 2, 3):
            it = itertools.product(FULL, repeat=n)
            while len(ck.violations) < 5:
                chunk = ["\t".join(("H",) + p) for p in itertools.islice(it, 120000)]
                if not chunk:
                    break
                n_exh += len(chunk)
                compare(chunk, "exhaustive len<=3 (%d ops)" % len(FULL))
        it = itertools.product(SMALL, repeat=4)
        while len(ck.violations) < 5:
            chunk = ["\t".join(("H",) + p) for p in itertools.islice(it, 120000)]
            if not chunk:
                break
            n_exh += len(chunk)
            compare(chunk, "exhaustive len 4 (%d ops)" % len(SMALL))
        stats["maxlen"] = 4
        if thorough:
            S5 = small_alphabet(False)
            it = itertools.product(S5, repeat=5)
            while len(ck.violations) < 5:
                chunk = ["\t".join(("H",) + p) for p in itertools.islice(it, 120000)]
                if not chunk:
                    break
                n_exh += len(chunk)
                compare(chunk, "exhaustive len 5 (%d ops)" % len(S5))
            stats["maxlen"] = 5
        samples.append([show(s) for s in (FULL[3], FULL[-7], FULL[-2])])
        # random long histories
        rl = []
        for _ in range(30000 if thorough else 4000):
            ops, info = rand_history(rng, 60 if rng.random() < 0.4 else 20, 8)
            stats["maxlen"] = max(stats["maxlen"], len(ops))
            stats["maxdepth"] = max(stats["maxdepth"], info["maxdepth"])
            rl.append("\t".join(["H"] + ops))
        compare(rl, "random histories (len<=60, depth<=8)")
        samples.append([show(s) for s in rl[0].split("\t")[1:]][:12])
        # get_all_var_names INTO A NAMED OUTPUT VARIABLE (defined or not at that moment).  The model's OpNames has no output
        # variable; the oracle is the model run with `- A` as last step: the names are those of the map BEFORE the assignment
        # (an already defined output variable is a key like any other), and afterwards the output variable holds the handle ("H")
        nm_hist = []
        for _ in range(4000 if thorough else 600):
            ops, _info = rand_history(rng, rng.randint(6, 14), 4)
            nm_hist.append((ops, rng.choice(N3 + ["zz"])))
        nm_model = ck.model(["\t".join(["H"] + ops + [st(None, "A")]) for ops, _o in nm_hist])
        nm_impl = ck.impl(["\t".join(["H"] + ops + [st(o, "A")]) for ops, o in nm_hist])
        stats["kinds"]["names into a named output variable"] = len(nm_hist)
        for (ops, o), m, i in zip(nm_hist, nm_model, nm_impl):
            ml, il = m.split("\t")[-1], i.split("\t")[-1]
            if not ml.startswith("L"):
                continue
            names, dump = ml.split(";", 1)
            kv = dict(x.split("=", 1) for x in dump.split(",") if "=" in x)
            kv[enc_str(o)] = enc_str("H")
            want = names + ";" + ",".join("%s=%s" % (k, kv[k]) for k in sorted(kv, key=lambda k: dec_str(k)))
            igot = il
            if ";" in il:
                n2, d2 = il.split(";", 1)
                kv2 = dict(x.split("=", 1) for x in d2.split(",") if "=" in x)
                igot = n2 + ";" + ",".join("%s=%s" % (k, kv2[k]) for k in sorted(kv2, key=lambda k: dec_str(k)))
            stats["histories"] += 1
            if igot != want and len(ck.violations) < 5:
                ck.violation({"kind": "get_all_var_names into a named output variable: the names must be those of the map before the "
                                      "assignment (the output variable included when it is already defined)",
                              "history": [show(x) for x in ops] + [show(st(o, "A"))], "expected": want, "implementation": il,
                              "theorems": ["C11_refines"], "seed": ck.seed})
        ck.coverage.update({
            "evaluations": stats["histories"],
            "steps_compared": stats["steps"],
            "distinct_nontrivial": stats["nontrivial"],
            "rule": "every history of length <= 3 over %d operations (3 names a/ab/a::b x 3 values, set with output variable, "
                    "unset, set_by_name insert/remove, get_by_name, is_defined, get_all_var_names, unset_all_vars with/without "
                    "--prefix, clear_scope, push/pop without --copy and with every copy list of <= 2 names incl. undefined ones "
                    "and the same name twice) and of length 4 over %d operations; random histories up to length 60 and nesting "
                    "depth 8 over odd names and values (spaces, quotes, ${..}, newline, empty, Unicode) passed verbatim; after "
                    "EVERY step the output and the whole variable map are compared.  non-trivial = history with at least one push "
                    "and one pop (distinct by construction in the exhaustive part)" % (len(FULL), len(SMALL)),
            "exhaustive": True,
            "exhaustive_part": {"histories": n_exh, "alphabet_len<=3": len(FULL), "alphabet_len4": len(SMALL)},
            "error_outputs(pop on empty stack)": stats["errors"], "pushes": stats["pushes"], "successful_pops": stats["pops_ok"],
            "max_history_length": stats["maxlen"], "max_nesting_depth": stats["maxdepth"],
            "alternative_pop_policy_tolerated": stats["alt_policy_tolerated"],
            "case_kinds": stats["kinds"], "samples": samples,
        })
    else:
        ck.coverage.update({"evaluations": 0, "distinct_nontrivial": 0, "rule": "model did not build", "samples": []})
    ck.report_broken(found[0])
    ck.assumptions += [
        "domain: variable names do not start with 'scope::unset::' (the private scope of the script-implemented unset, "
        "cleared by its wrapper) and, in the harness, not with '__' (harness-internal variables, removed after every step)",
        "set is used in its single-value form; get_all_var_names is observed through the array behind its handle, sorted",
        "the for-in loop of unset's script is modelled as a fold over the argument list (bind loop variable, set_by_name); "
        "the random handle value is a parameter the result is proved independent of",
        "hash-map iteration order is modelled by map_to_list; the loops insert distinct keys so the order is irrelevant (proved)",
    ]
