"""C18 — file commands behave like operations on a simple file tree (PARTIAL: the file system
underneath is modelled, not verified).

Formal side: props/C18.v over theories/FsTree.v (tree, primitives, M = the commands' decision
logic, S = the reference tree), FsProof.v (M refines S on the domain outside the known classes),
FsLaws.v (laws of S).  Correspondence: histories of <= 40 operations are run step by step on the
extracted M and S and on the real SDK commands in a fresh directory under .cache/c18/; after EVERY
step the command's output and the whole directory (paths, kinds, contents) are compared."""
import json
import os
import shutil
import subprocess
import vlib
from vlib import enc_str, enc_list, dec_str, dec_list

THEOREMS = ["C18_refines", "C18_refines_classes", "C18_wf", "C18_join_total", "C18_laws", "C18_utf8",
            "C18_F15_refuted", "C18_cp_self_error", "C18_mv_self_error", "C18_partial_parents_refuted", "C18_mv_noclobber_refuted"]

# classes of known findings (Coq: FsTree.known_step).  id = entry id in known_findings.json.
CLASSES = {
    1: ("F15", "mv FILE to a missing target without extension and without trailing separator creates a "
               "directory of that name and moves the file inside it instead of renaming"),
    3: ("F21", "writefile / appendfile / write_binary_file / touch / cp to a target written with a trailing "
               "separator fails but leaves the missing parent directories it created"),
    4: ("F22", "mv FILE into a directory that already has another file of that name is refused (error, nothing "
               "changed) although mv FILE onto an existing file overwrites it"),
}

NAMES = ["f", "g.txt", "x y.dat", "ü.txt", ".hid", "noext", "arch.tar.gz", "dot.", "日本", "k"]
# names with the characters a glob pattern gives a meaning to, each next to a sibling the name would match if it were read as a
# pattern: a path names one node, whatever characters it is made of (seed C18-w5-m1: rm of a missing `r[1].txt` removed r1.txt)
GLOB_NAMES = ["r[1].txt", "r1.txt", "w?", "wx", "s*", "st", "[ab]", "a", "**", "{x,y}", "x"]
DIRS = ["", "d", "d/sub", "a b", "é", "d/sub/deep", "new", "x.d", "a b/c d"]
TEXTS = ["", "a", "hello", "héllo wörld", "\n", "日本語", "l1\nl2\n", "\x00z", "😀", " sp ", "tab\there", "q\"u#o$t%e\\",
         # a leading U+FEFF is content like any other character (what was written is what is read)
         "\ufeffbom first", "\ufeff", "\ufeff\ufeffx", "mid\ufeffdle"]
BLOBS = [[], [0], [255, 254], [0xC3, 0x28], [0xE2, 0x82, 0xAC], [0xED, 0xA0, 0x80], [0xF4, 0x90, 0x80, 0x80],
         [0xC0, 0x80], [0xF0, 0x9F, 0x98, 0x80], [104, 105], [0xE2, 0x82], [0x80], [10, 13, 0, 9]]
FLAGS = ["-r", "-R", "-rf", "-f", "-fR", "-x", "-v"]
JP_PARTS = ["a", "b c", "é", "/", "//", "a/", "/b", "x//y", "///", "d.e", " s", "a;b", "..x", "日本/"]
TEXT_PATHS = ["a/b/c", "a/b/", "/", "a", "/a", "//a", "a//b//c//", "a b/é x", "", "///", "//a//b", "a/b.txt",
              "/a/b/", ".hid", "a/.hid/", "x.tar.gz", "日本/語"]


def enc_path(p):
    comps = [c for c in p.split("/") if c != ""]
    return ("1" if p.endswith("/") else "0") + ":" + enc_list(comps)


def enc_bytes(b):
    return "e" if not b else ".".join(str(x) for x in b)


def enc_op(op):
    k = op[0]
    if k in ("W", "A"):
        return "%s;%s;%s" % (k, enc_path(op[1]), enc_str(op[2]))
    if k == "WB":
        return "WB;%s;%s" % (enc_path(op[1]), enc_bytes(op[2]))
    if k in ("CP", "MV"):
        return "%s;%s;%s" % (k, enc_path(op[1]), enc_path(op[2]))
    if k == "RM":
        return "RM;%s;%s" % ("N" if op[1] is None else "S" + enc_str(op[1]),
                             ",".join(enc_path(p) for p in op[2]) if op[2] else "-")
    if k == "JP":
        return "JP;" + enc_list(op[1])
    if k in ("BN", "DN"):
        return "%s;%s" % (k, enc_str(op[1]))
    return "%s;%s" % (k, enc_path(op[1]))


def line_of(ops):
    return "H\t" + "\t".join(enc_op(o) for o in ops)


def show_step(field):
    """decode one `<out>|<dump>` field for replays"""
    try:
        out, dump = field.split("|")
        if out[:1] == "V":
            o = "value " + repr(dec_str(out[1:]))
        elif out[:1] == "B":
            o = "bytes " + repr([int(x) for x in out[1:].split(".")] if out[1:] != "e" else [])
        elif out[:1] == "L":
            o = "list " + repr(sorted(dec_str(x) for x in out[1:].split(" ")) if out[1:] != "-" else [])
        elif out[:1] == "X":
            o = "crash " + repr(dec_str(out[1:]))
        else:
            o = {"N": "no value", "E": "error"}.get(out, out)
        d = []
        if dump != "-":
            for e in dump.split(" "):
                if e[0] == "D":
                    d.append(dec_str(e[1:]) + "/")
                elif e[0] == "F":
                    p, c = e[1:].split(":")
                    d.append("%s = %r" % (dec_str(p), [int(x) for x in c.split(".")] if c != "e" else []))
                else:
                    d.append("?" + e)
        return {"out": o, "tree": sorted(d)}
    except Exception:  # noqa: BLE001
        return {"raw": field}


# ------------------------------------------------------------------------------------------------
def gen_history(rng, maxlen):
    """one history over a small per-case pool so that operations meet existing files, directories,
    missing paths and the wrong kind of node often"""
    dirs = rng.sample(DIRS, rng.randint(2, 4))
    pool = []
    globby = rng.random() < 0.15
    for _ in range(rng.randint(4, 9)):
        d = rng.choice(dirs)
        n = rng.choice(NAMES)
        pool.append((d + "/" + n) if d else n)
    if globby:
        d = rng.choice(dirs)
        k = 2 * rng.randrange(len(GLOB_NAMES) // 2)
        for n in GLOB_NAMES[k:k + 2] + [rng.choice(GLOB_NAMES)]:
            pool.append((d + "/" + n) if d else n)
        pool = pool[-6:]
    pool += [d for d in dirs if d]
    made = []          # paths mentioned so far: later operations prefer them
    files = []         # a rough idea of what exists, only to steer the choice (the models decide)
    dirs_made = []

    def path(target=False, want=None):
        r = rng.random()
        if want == "file" and files and r < 0.7:
            p = rng.choice(files)
        elif want == "any" and (files or dirs_made) and r < 0.65:
            p = rng.choice(files + dirs_made)
        elif made and r < 0.55:
            p = rng.choice(made)
        else:
            p = rng.choice(pool)
        r = rng.random()
        if r < 0.06:
            p = p + "/" + rng.choice(NAMES)          # below a file / into a directory
        elif r < 0.10 and "/" in p:
            p = p.rsplit("/", 1)[0]                   # the parent
        if rng.random() < (0.12 if target else 0.04):
            p = p + "/"                               # written as a directory
        made.append(p.rstrip("/"))
        return p

    def text():
        if rng.random() < 0.75:
            return rng.choice(TEXTS)
        return "".join(rng.choice("ab é\n日😀\x7f̀.") for _ in range(rng.randint(0, 6)))

    def blob():
        if rng.random() < 0.7:
            return list(rng.choice(BLOBS))
        return [rng.randrange(256) for _ in range(rng.randint(0, 8))]
    kinds = (["W"] * 12 + ["A"] * 8 + ["R"] * 7 + ["WB"] * 5 + ["RB"] * 4 + ["T"] * 5 + ["MK"] * 7 + ["CP"] * 11 +
             ["MV"] * 12 + ["RM"] * 8 + ["RD"] * 4 + ["EX"] * 2 + ["IF"] * 2 + ["ID"] * 2 + ["SZ"] * 3 + ["LS"] * 4 +
             ["BN", "DN", "JP"])
    ops = []
    for _ in range(rng.randint(1, maxlen)):
        k = rng.choice(kinds)
        if k in ("W", "A"):
            p = path(True, "file" if k == "A" and rng.random() < 0.6 else None)
            ops.append((k, p, text()))
            if not p.endswith("/"):
                files.append(p)
        elif k == "WB":
            p = path(True)
            ops.append((k, p, blob()))
            if not p.endswith("/"):
                files.append(p)
        elif k in ("CP", "MV"):
            a = path(False, "file")
            b = a if rng.random() < 0.04 else path(True, "any" if rng.random() < 0.4 else None)
            ops.append((k, a, b))
            if k == "MV" and a in files:
                files.remove(a)
            if not b.endswith("/"):
                files.append(b)
        elif k == "RM":
            fl = rng.choice(FLAGS) if rng.random() < 0.5 else None
            n = rng.choice([1, 1, 1, 2, 3, 0]) if fl else rng.choice([1, 1, 1, 2, 3])
            ps = [path(False, "any") for _ in range(n)]
            ops.append((k, fl, ps))
            for p in ps:
                if p in files:
                    files.remove(p)
        elif k in ("BN", "DN"):
            ops.append((k, rng.choice(TEXT_PATHS) if rng.random() < 0.6 else "/".join(
                rng.choice(["a", "b c", "", "é.x", "", ".h"]) for _ in range(rng.randint(1, 5)))))
        elif k == "JP":
            ops.append((k, [rng.choice(JP_PARTS) for _ in range(rng.randint(1, 4))]))
        elif k == "T":
            p = path(True)
            ops.append((k, p))
            if not p.endswith("/"):
                files.append(p)
        elif k == "MK":
            p = path()
            ops.append((k, p))
            dirs_made.append(p.rstrip("/"))
        elif k in ("R", "RB", "SZ"):
            ops.append((k, path(False, "file")))
        else:
            ops.append((k, path(False, "any")))
    return ops


CORPUS = [
    # F15 and its neighbours
    [("W", "f", "x"), ("MV", "f", "target"), ("EX", "target/f"), ("IF", "target")],
    [("W", "f.txt", "x"), ("MV", "f.txt", "g.txt"), ("R", "g.txt"), ("EX", "f.txt")],
    [("W", "f", "x"), ("MV", "f", "new/dir/"), ("R", "new/dir/f")],
    [("W", "f", "x"), ("MK", "d"), ("MV", "f", "d"), ("R", "d/f"), ("LS", "d")],
    [("W", "f", "x"), ("MV", "f", ".hid"), ("MV", ".hid/f", "dot."), ("R", "dot.")],
    # cp onto itself, mv onto itself
    [("W", "f", "data"), ("CP", "f", "f"), ("R", "f"), ("SZ", "f")],
    [("W", "g", "data"), ("MV", "g", "g"), ("EX", "g")],
    # failing operation after parents were created
    [("W", "new/x/", "q"), ("T", "new2/x/"), ("W", "f", "1"), ("CP", "f", "new3/sub/"), ("A", "n4/y/", "z"),
     ("WB", "n5/y/", [1])],
    # mv into a directory holding the name
    [("W", "d/f", "old"), ("W", "f", "new"), ("MV", "f", "d"), ("MV", "f", "d/"), ("MV", "f", "d/f"), ("R", "d/f")],
    [("W", "d/f", "x"), ("MV", "d/f", "d")],
    # read-after-write, append, binary, wrong kinds
    [("W", "a b/é.txt", "héllo"), ("A", "a b/é.txt", " wörld"), ("R", "a b/é.txt"), ("RB", "a b/é.txt"),
     ("SZ", "a b/é.txt"), ("WB", "bin", [0, 255, 128]), ("R", "bin"), ("RB", "bin"), ("W", "a b", "x"), ("R", "a b"),
     ("T", "a b"), ("MK", "bin"), ("MK", "bin/x"), ("RD", "bin"), ("RD", "a b"), ("RM", None, ["a b"]),
     ("RM", "-r", ["a b", "nope", "bin"]), ("LS", "a b")],
    [("MK", "d/s"), ("W", "d/s/f", "1"), ("RM", "-x", ["d"]), ("RM", "-r", []), ("RM", None, ["d/s/f", "d/s", "d"])],
    [("BN", "a/b/"), ("DN", "a//b//c//"), ("DN", "//a"), ("JP", ["/a//", "//b///", "c"]), ("JP", ["/", "/"])],
]


def known_open(ck, cls):
    """a class is tolerated unless known_findings.json records it as fixed"""
    fid = CLASSES[cls][0]
    for k in ck.known_db:
        if k.get("property") == "C18" and k.get("id") == fid:
            return k.get("status") == "open"
    return False   # a class that the committed register does not list is never tolerated


def split_model(line):
    parts = line.split("\t#\t")
    if len(parts) != 3:
        return None
    m = parts[0].split("\t") if parts[0] else []
    s = parts[1].split("\t") if parts[1] else []
    fl = parts[2].split(" ") if parts[2] else []
    return m, s, fl


def run(ck):
    ck.gen_from_source()
    ck.coq_build(["props/C18.vo", "extract/C18_extract.vo"])
    ck.print_assumptions(["DSP.C18"], ["DSP.C18." + t for t in THEOREMS])
    ck.source_tie("fs")
    ck.hygiene()
    ck.ocaml_build()
    ck.harness_build(["c18"])
    model_ok = not any(b.startswith("ocaml") for b in ck.broken) and os.path.exists(
        os.path.join(vlib.ROOT, "ocaml", "bin", "c18_model"))
    scratch = os.path.join(vlib.CACHE, "c18", "run-%d" % os.getpid())     # never /tmp; removed below
    os.makedirs(scratch, exist_ok=True)
    found = False
    try:
        if model_ok:
            found = correspondence(ck, scratch)
        else:
            ck.coverage.update({"evaluations": 0, "distinct_nontrivial": 0, "rule": "model did not build", "samples": []})
    finally:
        shutil.rmtree(scratch, ignore_errors=True)
        try:
            os.rmdir(os.path.dirname(scratch))        # only when no other run is using it
        except OSError:
            pass
    ck.report_broken(found)
    ck.assumptions += [
        "PARTIAL: the file system is modelled, not verified. The primitive specifications p_* (stat / create_dir_all / "
        "open+truncate / open-append / read / std::fs::copy / unlink / rmdir / remove_dir_all / glob), f_* (fsio 0.4 "
        "directory::create, create_parent, modify_file, ensure_exists) and x_* (fs_extra 1.3 file::copy, move_file, "
        "move_items) are assumptions, validated only by the step-by-step correspondence run on Linux",
        "the transcription of fs/*/mod.rs into M_* is by hand; it is sampled by the correspondence run, not proved",
        "paths are component lists plus a trailing-separator flag; absolute prefix of the working root, '.', '..', "
        "repeated separators, backslashes, symlinks, permissions and concurrent modification are outside the model",
        "directory sources of cp / mv are outside the property's domain: rename / dir::copy / move_dir are Section "
        "variables without any assumed fact and are never executed by the correspondence run",
        "join_path is modelled as the loops of its script.ds over text; arguments with $ % \\ \" # or control characters "
        "are excluded (eval re-serialisation, findings F7/F8 of C09)",
        "argument-count errors of the commands are not modelled (operations are generated with the right arity)",
    ]


def replay(ck, data):
    """bin/vcheck C18 --replay file: re-run the recorded history on both sides, step by step"""
    wire = data.get("wire")
    if wire is None:
        print("replay: this file names a broken obligation, not an input; re-run the check itself")
        return 1
    ck.ocaml_build()
    ck.harness_build(["c18"])
    scratch = os.path.join(vlib.CACHE, "c18", "run-%d" % os.getpid())
    os.makedirs(scratch, exist_ok=True)
    try:
        sp, it = run_one(ck, scratch, wire)
        mt, st, fl = sp
        for j, op in enumerate(wire.split("\t")[1:]):
            print("step %d  %s   domain=%s class=%s" % (j, op, fl[j][0], fl[j][1]))
            print("   implementation:", json.dumps(show_step(it[j]) if j < len(it) else None, ensure_ascii=False))
            print("   model M:       ", json.dumps(show_step(mt[j]), ensure_ascii=False))
            print("   spec S:        ", json.dumps(show_step(st[j]), ensure_ascii=False))
        j = fails_at(ck, scratch, wire)
    finally:
        shutil.rmtree(scratch, ignore_errors=True)
        try:
            os.rmdir(os.path.dirname(scratch))
        except OSError:
            pass
    print("REPLAY: " + ("agree now" if j is None else "still disagree at step %d" % j))
    return 0 if j is None else 1


def correspondence(ck, scratch, only=None):
    rng = ck.rng
    thorough = ck.tier == "thorough"
    n_small = 0
    if only is not None:
        lines = list(only)
        n_corpus = 0
    else:
        hs = [list(h) for h in CORPUS]
        n_corpus = len(hs)
        # small scope: every pair of operations from a fixed list on a fixed tiny pool
        base = [("W", "f", "x"), ("W", "d/g.txt", "yy"), ("MK", "d")]
        small = [("W", "f", "n"), ("A", "f", "+"), ("W", "d", "n"), ("W", "n/e/", "1"), ("T", "d/t"), ("T", "d"),
                 ("MK", "f"), ("MK", "d/e/e"), ("CP", "f", "d"), ("CP", "f", "d/g.txt"), ("CP", "f", "f"), ("CP", "f", "n/m/f"),
                 ("CP", "f", "n/m/"), ("CP", "nope", "q"), ("MV", "f", "d"), ("MV", "f", "d/"), ("MV", "f", "q"), ("MV", "f", "q.txt"),
                 ("MV", "f", "d/g.txt"), ("MV", "d/g.txt", "d"), ("MV", "f", "f"), ("MV", "f", "n/m/"), ("MV", "f", "f/x"),
                 ("MV", "nope", "q"), ("RM", None, ["f"]), ("RM", None, ["d"]), ("RM", "-r", ["d"]), ("RM", "-f", ["d", "f"]),
                 ("RM", None, ["f", "d", "nope"]), ("RD", "d"), ("RD", "f"), ("RD", "nope"), ("R", "f"), ("R", "d"), ("LS", "d"),
                 ("SZ", "f"), ("SZ", "d"), ("EX", "f/"), ("ID", "d/"), ("IF", "d/g.txt")]
        for a in small:
            for b in small:
                hs.append(base + [a, b, ("R", "f"), ("R", "d/g.txt")])
        n_small = len(hs) - n_corpus
        for _ in range(40000 if thorough else 3000):
            hs.append(gen_history(rng, 40))
        lines = [line_of(h) for h in hs]
        # keep the histories inside the domain: drop the first off-domain operation (a cp / mv whose
        # source is a directory at that moment), a few rounds, then cut
        for rnd in range(6):
            outs = ck.model(lines)
            changed = False
            for i, o in enumerate(outs):
                sp = split_model(o)
                if sp is None:
                    continue
                fl = sp[2]
                bad = next((j for j, f in enumerate(fl) if f[0] == "0"), None)
                if bad is not None:
                    f = lines[i].split("\t")
                    if rnd < 5:
                        del f[1 + bad]
                    else:
                        f = f[:1 + bad]
                    lines[i] = "\t".join(f)
                    changed = True
            if not changed:
                break
        lines = [l for l in lines if l != "H"]
    m_out = ck.model(lines)
    i_out = ck.impl(lines, args=(scratch,))
    found = False
    reported = set()
    steps = 0
    nontriv = set()
    dist = {}
    cls_seen = {}
    hist_len = {}
    samples = []
    for idx, (line, mo, io) in enumerate(zip(lines, m_out, i_out)):
        ops = line.split("\t")[1:]
        sp = split_model(mo)
        if sp is None or len(sp[0]) != len(ops):
            ck.broken.append("model output malformed: " + mo[:80])
            continue
        mt, st, fl = sp
        it = io.split("\t")
        hist_len[len(ops) // 10 * 10] = hist_len.get(len(ops) // 10 * 10, 0) + 1
        first_known = next((j for j, f in enumerate(fl) if f[1] != "0"), None)
        prev_dump = "-"
        for j, op in enumerate(ops):
            if fl[j][0] == "0":
                break                                         # off-domain (only when cutting failed)
            steps += 1
            kind = op.split(";")[0]
            iv = it[j] if j < len(it) else "MISSING(" + io[:40] + ")"
            mo_out, mo_dump = mt[j].split("|")
            changed = mo_dump != prev_dump
            key = "%s:%s:%s" % (kind, mo_out[:1] + (dec_str(mo_out[1:]) if mo_out in ("V116.114.117.101", "V102.97.108.115.101") else ""),
                                "changed" if changed else "same")
            dist[key] = dist.get(key, 0) + 1
            if changed or mo_out[:1] in ("V", "B", "L"):
                nontriv.add(prev_dump + "\t" + op)
            prev_dump = mo_dump
            in_spec = first_known is None or j < first_known
            if in_spec and mt[j] != st[j] and len(ck.broken) < 5:
                ck.broken.append("extracted M and S disagree inside the domain (C18_refines would be false): step %d of %s" % (j, line[:200]))
            bad = None
            if iv != mt[j]:
                bad = "model-vs-implementation"
                if in_spec:
                    bad = "spec-vs-implementation (in-domain history)"
            elif first_known is not None and j == first_known:
                cls = int(fl[j][1])
                if mt[j] != st[j]:
                    if known_open(ck, cls):
                        cls_seen[cls] = cls_seen.get(cls, 0) + 1
                        ck.known("%s (%s): %s" % (CLASSES[cls][0], "class %d" % cls, CLASSES[cls][1]))
                    else:
                        bad = "spec-vs-implementation (class %d is recorded as fixed)" % cls
            if bad:
                found = True
                if len(ck.violations) < 5:
                    sh_line, sh_j = shrink(ck, scratch, line, j)
                    if sh_line not in reported:
                        reported.add(sh_line)
                        ck.violation(describe(bad, sh_line, sh_j, ck, scratch))
                break
        if len(samples) < 4 and idx in (0, n_corpus, len(lines) // 2, len(lines) - 1):
            samples.append(line[:300])
    for c in CLASSES:
        if only is None and c not in cls_seen and known_open(ck, c):
            # the witness of an open finding no longer fails: say so (not a violation)
            print("NOTE: property=C18 witness of %s no longer disagrees with the specification" % CLASSES[c][0])
    ck.coverage.update({
        "evaluations": steps,
        "histories": len(lines),
        "distinct_nontrivial": len(nontriv),
        "rule": "a step = one command run on the real SDK in a fresh directory, its output and the full directory dump "
                "compared with the extracted M (always) and S (up to the first step of a known class); non-trivial = "
                "distinct (tree before, operation) pair whose step changes the tree or returns a value / bytes / listing",
        "exhaustive": True,
        "exhaustive_part": {"corpus": n_corpus, "operation pairs on a fixed 3-node tree": n_small},
        "samples": samples,
        "history_length_distribution": hist_len,
        "step_distribution(kind:output:effect)": dict(sorted(dist.items())),
        "known_class_steps": {CLASSES[c][0]: n for c, n in cls_seen.items()},
    })
    return found


def run_one(ck, scratch, line):
    m = subprocess.run([os.path.join(vlib.ROOT, "ocaml", "bin", "c18_model")], input=line + "\n", text=True,
                       stdout=subprocess.PIPE).stdout.rstrip("\n")
    i = subprocess.run([os.path.join(vlib.CARGO_TARGET, "release", "c18"), scratch], input=line + "\n", text=True,
                       stdout=subprocess.PIPE).stdout.rstrip("\n")
    return split_model(m), i.split("\t")


def fails_at(ck, scratch, line):
    """index of the first step where the implementation leaves M (or S inside the spec'd part)"""
    sp, it = run_one(ck, scratch, line)
    if sp is None:
        return None
    mt, st, fl = sp
    for j in range(len(mt)):
        if fl[j][0] == "0":
            return None
        if j >= len(it) or it[j] != mt[j]:
            return j
        if fl[j][1] != "0":
            cls = int(fl[j][1])
            if mt[j] != st[j] and not known_open(ck, cls):
                return j
            return None
    return None


def shrink(ck, scratch, line, j):
    f = line.split("\t")
    f = f[:2 + j]
    cur = "\t".join(f)
    if fails_at(ck, scratch, cur) is None:
        return line, j
    k = len(f) - 2
    while k >= 1:
        cand = f[:k] + f[k + 1:]
        c = "\t".join(cand)
        if fails_at(ck, scratch, c) is not None:
            f = cand
        k -= 1
    cur = "\t".join(f)
    return cur, fails_at(ck, scratch, cur)


def describe(kind, line, j, ck, scratch):
    sp, it = run_one(ck, scratch, line)
    mt, st, fl = sp
    ops = line.split("\t")[1:]
    return {
        "kind": kind, "wire": line, "failing_step": j, "operations": ops,
        "implementation": show_step(it[j]) if j is not None and j < len(it) else it,
        "model_M": show_step(mt[j]) if j is not None else None,
        "spec_S": show_step(st[j]) if j is not None else None,
        "flags(domain,class)": fl, "seed": ck.seed,
        "theorems": ["C18_refines", "C18_laws"],
        "replay_cmd": "printf '%s\\n' | .cache/cargo-target/release/c18 /verif/.cache/c18 ; same line | ocaml/bin/c18_model"
                      % line.replace("\t", "\\t"),
    }
