"""C12 — arrays, maps and sets behind handles behave like their plain counterparts.

Formal side: coq/props/C12.v.  Model M (theories/Collections.v): utils/state.rs put_handle / mutate_list /
mutate_map / mutate_set / remove_handle_recursive and every native collection command, one function per Rust
function, Rust panics and recursion fuel as explicit outcomes.  Specification S (CollectionsSpec.v): what a
command does to the collections (keep / update one / allocate a fresh handle / release) with plain list,
finite-map and finite-set operations.  Proofs (CollectionsProof.v): M = S for every native command on every
state and argument list, mismatch, release, distinctness, verbatim storage, and the four loop-free script
commands translated by hand (CollectionsScripts.v).  coq/generated/GenCollections.v (lib/gen/c12_gen.py) is the
table of names, aliases, argument counts and helper calls read from the source; C12_tables ties it to the model.

Correspondence: histories of collection commands are run (a) by the extracted model — M for the native
commands, the hand translations (CollectionsScripts.v, CollectionsJoin.v) for the nine script commands, `array_concat` in its as-is form (finding F6) — and (b) by the real SDK in one persistent
Context per history (harness c12: one-line scripts, arguments passed through variables).  After every op the
outputs are compared; at `dump` ops every collection allocated so far is re-read through the public commands
(is_array/array_length/array_get, is_map/map_keys/map_get, is_set/set_to_array) and compared together with the
size of the handle table.  Random handle names are replaced on both sides by the step that allocated them;
map / set listings are sorted.

Known findings tolerated (exactly these classes):
  F6  array_concat, called after an earlier array_concat failed during validation, resumes the validation
      loop where the failed call stopped (CollectionsSpec.concat_asis; the model marks the step `~` when that
      differs from the specification; theorem C12_F6_confined: no difference unless an earlier call failed).
      The implementation must still agree with concat_asis.
  F7  array_join leaves a trailing separator when the separator, re-serialised for `if not is_empty <sep>`,
      does not re-bind to itself (classes of C09: # without a space, ${x} / %{x}, CR / LF, trailing white
      space, a leading quote ...).  The model runs the translated script (CollectionsJoin.v, no variable
      defined) and predicts this; the implementation may answer the model's text, <joined> or <joined><sep>,
      and for a separator =word (class E) an error.  Arguments of script commands that reach `if not <command> ${arg}`
      and contain # $ % " \ = or such white space are outside the compared domain (C09's finding F7): only
      "an error or false" is required and the rest of that history is not compared.
"""
import os
import vlib
from vlib import enc_str, dec_str, enc_list, dec_list

THEOREMS = ["C12_tables", "C12_short_args", "C12_refines", "C12_refines_run", "C12_refines_script",
            "C12_refines_array_contains", "C12_refines_set_from_array", "C12_refines_array_concat",
            "C12_refines_map_contains_value", "C12_refines_array_join", "C12_array_join_F7_refuted",
            "C12_array_join_example", "C12_no_empty_handle", "C12_refines_run_proved", "C12_nopanic", "C12_mismatch", "C12_mismatch_native", "C12_mismatch_release",
            "C12_mismatch_concat", "C12_release_total", "C12_release", "C12_release_cyclic", "C12_distinct", "C12_frame",
            "C12_verbatim_array", "C12_verbatim_map", "C12_verbatim_set", "C12_parse_dec", "C12_verbatim_array_dec",
            "C12_keys_perm", "C12_members_perm", "C12_array_contains_least", "C12_array_contains_none",
            "C12_map_contains_value_spec", "C12_set_from_array_spec", "C12_oracles_exist", "C12_F6_witness",
            "C12_F6_confined"]

ALLOC = {"array", "range", "map", "set_new", "map_keys", "set_to_array", "array_concat", "set_from_array", "raw"}
KIND_OF = {"array": "A", "range": "A", "map": "M", "set_new": "S", "map_keys": "A", "set_to_array": "A",
           "array_concat": "A", "set_from_array": "S", "raw": "O"}
SCRIPT = {"array_is_empty", "array_contains", "array_concat", "array_join", "map_contains_key",
          "map_contains_value", "map_is_empty", "set_from_array", "set_is_empty"}
# argument positions of script commands that travel through `if not <command> ${arg}` (re-serialised: F7)
EXPOSED = {"array_concat": None, "array_join": (0, 1), "set_from_array": (0,), "map_contains_value": (0,)}
UNSAFE = set('#$%"\\=') | {c for c in map(chr, list(range(0, 32)) + [133, 160, 5760, 8232, 8233, 8239, 8287, 12288] + list(range(8192, 8203))) }
K7 = set('#$%') | {c for c in UNSAFE if c.isspace() or ord(c) < 32}

VALUES = ["", "a", "b", "c", "x y", "handle:", "handle:AAAAAAAAAAAAAAAAAAAA", "handle:zzzzzzzzzzzzzzzzzzz9", "true",
          "false", "0", "1", "12", "-5", "é", "日本語", "a,b", "${x}", "%{x}", "${__a1}", "#c", "# c", "\"q\"", "\"", "\\",
          "a\\b", "tab\there", "nl\nline", "cr\rx", " lead", "trail ", "  ", "-r", "--recursive", "--", "😀", "é",
          "null", "none", "undefined:0", "=", "x=y", ":l", "!inc", "a b c", "'", "`", "(", ")", "not", " ", " ",
          "handle:N0000000000000000000", "scope::array_concat::arguments", "\x00", "a\x00b", "\ufeff", "\U0010ffff",
          "\u202e", "e\u0301", "\u1e9e", "İ", "ß", "true ", "FALSE", "0.0", "١٢", "handle:RAW00000000000000009",
          # integer-looking text that is NOT the canonical rendering of its number (seed C12-w5-m1: stored as a number)
          "007", "0042", "+5", "-0", "+0", "00", "1e3", "0x10", "9223372036854775808", "-9223372036854775808", "1_000", "1.0", "٣"]
SAFE_VALUES = ["a", "b", "c", "x y", "handle:", "handle:AAAAAAAAAAAAAAAAAAAA", "true", "false", "0", "12", "é", "日本語",
               "a,b", "", "nope", "-r", "=", ":l", "!inc", "'", "(", "not", "😀", "007", "+5", "-0"]
INDEXES = ["0", "1", "2", "3", "4", "5", "6", "7", "10", "149", "150", "255", "256", "292", "293", "299", "300", "-1", "+1", "+0", "01", "007", "abc", "", "1.0", " 1", "1 ", "-0",
           "18446744073709551615", "18446744073709551616", "99999999999999999999999999", "٣", "+", "-", "0x1", "1e1",
           "4294967296", "9223372036854775807", "9223372036854775808"]
RANGE_ARGS = ["0", "1", "2", "3", "5", "-2", "-1", "+3", "10", "abc", "", "1.5", "9223372036854775807",
              "9223372036854775808", "-9223372036854775808", "-9223372036854775809", " 1", "03"]
SAFE_SEPS = [",", "", ", ", "ab", "é", "--", "::", " ", "\"", "\\", "a b", "日", "'"]
K7_SEPS = ["#", "\t", "${x}", "%{x}", "\n", "#x", "\r", "$", "%", "a#", "\u2028", "\" x", "a\" b", "\"a\"", "\\$", "x\\",
           "%a b", "=", "=x", "a\t", "# x", "a\rb", "\"\"", "${__a1}", "\\${x}", " \t", "a %b c", "\xa0"]


def source_aliases():
    """{canonical name: [aliases]}: the aliases the model knows that the source (read by the extractor that
    writes GenCollections.v) still declares"""
    import sys
    sys.path.insert(0, os.path.join(vlib.ROOT, "lib"))
    sys.path.insert(0, os.path.join(vlib.ROOT, "lib", "gen"))
    known = {"array_push": ["array_push", "array_add", "array_put"], "array_length": ["array_length", "arrlen", "array_size"],
             "map_put": ["map_put", "map_add"], "set_put": ["set_put", "set_add"]}     # CollectionsTables.cmd_aliases
    try:
        import gen_from_source
        import c12_gen
        src = {al[0]: al for (_, al, _, _, _) in c12_gen.extract(gen_from_source)}
        return {k: [a for a in v if a in src.get(k, [])] or [k] for k, v in known.items()}
    except Exception:           # the obligation C12_tables is broken in that case; run without aliases
        return {}


ALIASES = {}       # canonical name -> all names, filled by run()
ALIAS_OF = {}      # any name -> canonical name


def cname(op):
    n = op.split(" ")[0]
    return ALIAS_OF.get(n, n)


def lit(s):
    return "=" + enc_str(s)


def span_small(a, b):
    """never ask for a range with more than 1000 elements (F13 is not this property's business)"""
    import re
    if not (re.fullmatch(r"[+-]?[0-9]+", a) and re.fullmatch(r"[+-]?[0-9]+", b)):
        return True
    x, y = int(a), int(b)
    if not (-2 ** 63 <= x < 2 ** 63 and -2 ** 63 <= y < 2 ** 63):
        return True
    return y - x <= 1000


class Gen:
    """random history generator; tracks (approximately) which steps allocated which kind"""

    def __init__(self, rng, allow_k7=False, allow_unsafe_exposed=False, script_weight=1.0):
        self.rng = rng
        self.ops = []
        self.allocs = []      # (step, kind)
        self.released = []    # steps
        self.keys = {}        # step of the allocation -> arguments put into that collection (keys / members / items)
        self.vals = {}        # step -> map values put
        self.recent = []      # literal arguments used so far (keys, members, items are asked for again)
        self.allow_k7 = allow_k7
        self.allow_unsafe_exposed = allow_unsafe_exposed
        self.script_weight = script_weight

    def value(self):
        v = self.value0()
        if v.startswith("="):
            self.recent.append(v)
            if len(self.recent) > 12:
                self.recent.pop(0)
        return v

    def value0(self):
        r = self.rng
        x = r.random()
        if self.recent and r.random() < 0.45:
            return r.choice(self.recent)
        if x < 0.70:
            return lit(r.choice(VALUES))
        if x < 0.85 and self.allocs:
            return "@%d" % r.choice(self.allocs)[0]          # a handle stored as a value
        n = r.randint(0, 6)
        return lit("".join(chr(r.choice([r.randint(32, 126), r.randint(0xa0, 0x2ff), r.randint(0x4e00, 0x4e80),
                                         r.randint(0x1f600, 0x1f640), r.randint(1, 31)])) for _ in range(n)))

    def known(self, h, table):
        """mostly something that was put into the collection behind `h` (so that lookups hit), else any value"""
        if h.startswith("@") and self.rng.random() < 0.65:
            pool = table.get(int(h[1:]))
            if pool:
                return self.rng.choice(pool)
        return self.value()

    def note(self, h, table, items):
        if isinstance(h, int) or h.startswith("@"):
            table.setdefault(h if isinstance(h, int) else int(h[1:]), []).extend(items)

    def safe_value(self):
        return lit(self.rng.choice(SAFE_VALUES))

    def handle(self, kind, safe=False):
        """an argument for a handle position that wants `kind`"""
        r = self.rng
        x = r.random()
        live = [s for (s, k) in self.allocs if s not in self.released]
        right = [s for (s, k) in self.allocs if k == kind and s not in self.released]
        wrong = [s for (s, k) in self.allocs if k != kind and s not in self.released]
        if x < 0.72 and right:
            return "@%d" % r.choice(right)
        if x < 0.84 and wrong:
            return "@%d" % r.choice(wrong)
        if x < 0.92 and self.released:
            return "@%d" % r.choice(self.released)
        if x < 0.95 and live:
            return "@%d" % r.choice(live)
        if safe:
            return lit(r.choice(["nope", "handle:AAAAAAAAAAAAAAAAAAAA", "", "true", "x y", "handle:"]))
        if x < 0.97 and self.ops and not safe:
            return "@%d" % r.randrange(len(self.ops))          # output of any earlier step
        return lit(r.choice(VALUES))

    def index(self):
        r = self.rng
        return lit(r.choice(INDEXES[:8]) if r.random() < 0.7 else r.choice(INDEXES))

    def add(self, op):
        name = op.split(" ")[0]
        others = ALIASES.get(name, [name])
        if len(others) > 1 and self.rng.random() < 0.35:
            op = " ".join([self.rng.choice(others)] + op.split(" ")[1:])     # call it by one of its aliases
        if name in ALLOC:
            self.allocs.append((len(self.ops), KIND_OF[name]))
        if name == "release":
            for a in op.split(" ")[1:]:
                if a.startswith("@") and int(a[1:]) not in self.released:
                    self.released.append(int(a[1:]))
        self.ops.append(op)

    def some_values(self, lo, hi, safe=False):
        return [self.safe_value() if safe else self.value() for _ in range(self.rng.randint(lo, hi))]

    def step(self):
        r = self.rng
        w = self.script_weight
        table = [
            ("array", 6), ("range", 2), ("array_push", 8), ("array_pop", 4), ("array_get", 6), ("array_set", 5),
            ("array_remove", 5), ("array_clear", 1), ("array_length", 3),
            ("map", 4), ("map_put", 8), ("map_get", 5), ("map_remove", 4), ("map_size", 2), ("map_keys", 2), ("map_clear", 1),
            ("set_new", 4), ("set_put", 6), ("set_remove", 4), ("set_contains", 4), ("set_size", 2), ("set_clear", 1),
            ("set_to_array", 2), ("is_array", 2), ("is_map", 2), ("is_set", 2), ("release", 4), ("raw", 1),
            ("array_is_empty", 2 * w), ("array_contains", 3 * w), ("array_concat", 3 * w), ("array_join", 3 * w),
            ("map_contains_key", 2 * w), ("map_contains_value", 3 * w), ("map_is_empty", 2 * w), ("set_from_array", 2 * w),
            ("set_is_empty", 2 * w), ("dump", 3),
        ]
        name = r.choices([t[0] for t in table], [t[1] for t in table])[0]
        few = r.random() < 0.04        # too few arguments
        a = []
        if name in ("array", "set_new"):
            a = self.some_values(0, 4)
            self.note(len(self.ops), self.keys, a)
        elif name == "range":
            if r.random() < 0.04:
                a = [lit(str(r.choice([0, -150, 7]))), lit(str(r.choice([256, 300, 150])))]      # a few hundred items
            elif r.random() < 0.8:
                s = r.randint(-3, 5)
                a = [lit(str(s)), lit(str(s + r.choice([0, 0, 1, 2, 3, 5, 8, -1])))]
            else:
                while True:
                    x0, x1 = r.choice(RANGE_ARGS), r.choice(RANGE_ARGS)
                    if span_small(x0, x1):
                        break
                a = [lit(x0), lit(x1)]
        elif name in ("array_push",):
            a = [self.handle("A")] + self.some_values(0, 3)
            self.note(a[0], self.keys, a[1:])
        elif name in ("array_pop", "array_clear", "array_length", "array_is_empty"):
            a = [self.handle("A")]
        elif name in ("array_get", "array_remove"):
            a = [self.handle("A"), self.index()]
        elif name == "array_set":
            a = [self.handle("A"), self.index(), self.value()]
        elif name == "map":
            a = self.some_values(0, 1) if r.random() < 0.1 else []
        elif name == "map_put":
            a = [self.handle("M"), self.value(), self.value()]
            self.note(a[0], self.keys, [a[1]])
            self.note(a[0], self.vals, [a[2]])
        elif name in ("map_get", "map_remove", "map_contains_key"):
            h = self.handle("M")
            a = [h, self.known(h, self.keys)]
        elif name in ("map_size", "map_keys", "map_clear", "map_is_empty"):
            a = [self.handle("M")]
        elif name == "set_put":
            a = [self.handle("S")] + self.some_values(0, 3)
            self.note(a[0], self.keys, a[1:])
        elif name in ("set_remove", "set_contains"):
            h = self.handle("S")
            a = [h, self.known(h, self.keys)]
        elif name in ("set_size", "set_clear", "set_to_array", "set_is_empty"):
            a = [self.handle("S")]
        elif name in ("is_array", "is_map", "is_set"):
            a = [self.handle(r.choice("AMS"))]
        elif name == "release":
            h = self.handle(r.choice("AMSO"))
            x = r.random()
            a = [lit("-r"), h] if x < 0.35 else [lit("--recursive"), h] if x < 0.45 else [h, lit("-r")] if x < 0.5 else [h]
        elif name == "raw":
            a = [str(r.randint(0, 9))]
        elif name == "array_contains":
            h = self.handle("A")
            a = [h, self.known(h, self.keys)]
        elif name == "array_concat":
            a = [self.handle("A", safe=not self.allow_unsafe_exposed) for _ in range(r.choice([0, 1, 2, 2, 3]))]
        elif name == "array_join":
            sep = lit(r.choice(K7_SEPS)) if (self.allow_k7 and r.random() < 0.3) else lit(r.choice(SAFE_SEPS))
            a = [self.handle("A", safe=not self.allow_unsafe_exposed), sep]
        elif name == "set_from_array":
            a = [self.handle("A", safe=not self.allow_unsafe_exposed)]
        elif name == "map_contains_value":
            h = self.handle("M", safe=not self.allow_unsafe_exposed)
            a = [h, self.known(h, self.vals)]
        if few and a and name != "raw":
            a = a[:r.randrange(len(a))]
        if r.random() < 0.03 and name not in ("raw", "dump"):
            a = a + [self.value()]                      # a surplus argument
        self.add(" ".join([name] + a))

    def history(self, n):
        for _ in range(n):
            self.step()
        self.add("dump")
        return self.ops


def show_op(op):
    t = op.split(" ")
    return " ".join([t[0]] + [x if (x.startswith("@") or t[0] == "raw") else repr(dec_str(x[1:])) for x in t[1:]])


# ------------------------------------------------------------------------------------------------
def canon_str(s, names):
    """replace every occurrence of an allocated handle name by ⟨step⟩"""
    if "handle:" not in s:
        return s
    out = []
    i = 0
    while i < len(s):
        if s.startswith("handle:", i):
            for (k, n) in names:
                if s.startswith(n, i):
                    out.append("⟨%d⟩" % k)
                    i += len(n)
                    break
            else:
                out.append(s[i])
                i += 1
        else:
            out.append(s[i])
            i += 1
    return "".join(out)


def canon_side(ops, fields):
    """-> (canonical per-op results, raw decoded output values or None, names known at each step,
           canonical specification answer of the steps the model flags with ~)"""
    names = []     # (step, name), latest first
    res, raw, names_at, spec = [], [], [], {}
    for k, (op, f) in enumerate(zip(ops, fields)):
        name = cname(op)
        flag = f.split("~")[1] if "~" in f else None
        f = f.split("~")[0]
        names_at.append(list(names))
        if flag is not None and flag.startswith("V"):
            spec[k] = ("V", canon_str(dec_str(flag[1:]), names))
        elif flag is not None:
            spec[k] = (flag, None)
        if f.startswith("V"):
            v = dec_str(f[1:])
            raw.append(v)
            if name in ALLOC:
                names.insert(0, (k, v))
            res.append(("V", canon_str(v, names)))
        elif f.startswith("D"):
            raw.append(None)
            parts = f.split("|")
            d = [parts[0]]
            for p in parts[1:]:
                x = p.split(" ", 2)
                items = [canon_str(s, names) for s in dec_list(x[2])] if len(x) > 2 and x[2] != "" else []
                if x[1] == "M":
                    items = sorted(zip(items[0::2], items[1::2]))
                elif x[1] == "S":
                    items = sorted(items)
                d.append((x[0], x[1], tuple(items)))
            res.append(("D", tuple(d)))
        else:
            raw.append(None)
            res.append((f, None))
    return res, raw, names_at, spec


def resolve_args(op, raw):
    out = []
    for a in op.split(" ")[1:]:
        if a.startswith("@"):
            k = int(a[1:])
            out.append(raw[k] if k < len(raw) and raw[k] is not None else "undefined:%d" % k)
        elif a.startswith("="):
            out.append(dec_str(a[1:]))
        else:
            out.append(a)
    return out


def compare_history(ops, mfields, ifields):
    """-> (status, step, detail, notes)  status in ok | diff | truncated ; notes = set of known-finding tags"""
    notes = set()
    if len(mfields) != len(ops) or len(ifields) != len(ops):
        return "diff", -1, "field count: model %d impl %d ops %d" % (len(mfields), len(ifields), len(ops)), notes
    cm, rawm, names_m, spec_m = canon_side(ops, mfields)
    ci, rawi, _, _ = canon_side(ops, ifields)
    for k, op in enumerate(ops):
        name = cname(op)
        if "~" in mfields[k] and name not in ("array_concat", "array_join"):
            return "diff", k, "model and specification differ on a command other than array_concat / array_join", notes
        if "~" in mfields[k] and name == "array_concat":
            if cm[k] != ci[k]:
                ideal = mfields[k].split("~")[1]
                same_as_spec = ((ideal == "H" and ci[k][0] == "V" and ci[k][1] == "⟨%d⟩" % k) or
                                (ideal[:1] == "E" and ci[k][0] == ideal))
                if same_as_spec:
                    # the implementation answers what the specification says, not what the as-is definition
                    # says: F6 does not reproduce here (repaired?).  Not a violation; the rest of this history
                    # cannot be compared against the as-is model.
                    notes.add("F6-not-reproduced")
                    return "truncated", k, "", notes
            notes.add("F6")
        if name in SCRIPT:
            args = resolve_args(op, rawm)
            pos = EXPOSED.get(name, ())
            exposed = args if pos is None else [args[p] for p in pos if p < len(args)]
            if name == "array_join" and len(args) >= 2 and not (set(args[0]) & UNSAFE):
                # F7.  The model runs the translated script (CollectionsJoin.v) with no variable defined and marks the
                # step ~ when that differs from the specification.  Same answer: fine.  Otherwise, for a separator
                # with a character that re-serialisation may treat specially (the real variables may matter, e.g.
                # ${__a1}): the joined text, with or without one trailing separator.
                flagged = "~" in mfields[k]
                if cm[k] == ci[k]:
                    if flagged:
                        notes.add("F7")
                    continue
                if flagged or (set(args[1]) & UNSAFE):
                    ideal = spec_m[k] if flagged else cm[k]
                    if ideal[0] == "V" and ci[k][0] == "V":
                        raw_ideal = dec_str(mfields[k].split("~")[1][1:]) if flagged else rawm[k]
                        trailing = canon_str(raw_ideal + args[1], names_m[k])
                        if ci[k][1] == ideal[1]:
                            continue
                        if ci[k][1] == trailing:
                            notes.add("F7")
                            continue
                    if args[1].startswith("=") and " " not in args[1] and ci[k][0].startswith("EX"):
                        # class E of F7: `is_empty =x` is read as an assignment to the variable is_empty of the
                        # result of command x; array_join reports that error instead of joining
                        notes.add("F7")
                        continue
                    return "diff", k, "array_join: neither the model's answer, nor joined, nor joined+separator: %r / %r" % (cm[k], ci[k]), notes
                exposed = exposed[:1]
            if any(set(x) & UNSAFE for x in exposed):
                # the argument is re-serialised by `if not <command> ${arg}`: only "error or false" is required,
                # and the rest of the history is not compared (the as-is bookkeeping of F6 may be off)
                ok = ci[k][0].startswith("E") or ci[k] == ("V", "false") or ci[k] == cm[k]
                if any(("$" in x or "%" in x) for x in exposed):
                    ok = True      # expanded a second time: may name anything, e.g. another argument (C09 class H)
                if not ok:
                    return "diff", k, "script command with an unsafe exposed argument did not report error/false", notes
                notes.add("F7-exposed")
                return "truncated", k, "", notes
        if cm[k] != ci[k]:
            if ci[k][0].startswith("EX") and cm[k][0] in ("EN", "EF") and any(("$" in x or "%" in x) for x in resolve_args(op, rawm)):
                # the error MESSAGE embeds the argument and is expanded again on its way to on_error (C10/C02
                # territory): the kind cannot be read back, an error was reported
                continue
            return "diff", k, "model %r implementation %r" % (cm[k], ci[k]), notes
    return "ok", -1, "", notes


# ------------------------------------------------------------------------------------------------
SETUP = ["array =97 =98", "map", "map_put @1 =107 =118", "set_new =97 =98", "raw 8", "array =120", "release @5"]
TARGETS = ["@0", "@1", "@3", "@4", "@5", lit("nope")]


def confusion_ops(t):
    a, k, v, z = lit("a"), lit("k"), lit("v"), lit("z")
    return ["array_push %s %s" % (t, z), "array_pop %s" % t, "array_get %s =48" % t, "array_set %s =48 %s" % (t, z),
            "array_remove %s =48" % t, "array_clear %s" % t, "array_length %s" % t,
            "map_put %s %s %s" % (t, z, z), "map_get %s %s" % (t, k), "map_remove %s %s" % (t, k), "map_size %s" % t,
            "map_keys %s" % t, "map_clear %s" % t,
            "set_put %s %s" % (t, z), "set_remove %s %s" % (t, a), "set_contains %s %s" % (t, a), "set_size %s" % t,
            "set_clear %s" % t, "set_to_array %s" % t, "is_array %s" % t, "is_map %s" % t, "is_set %s" % t,
            "release %s" % t, "release =45.114 %s" % t,
            "array_is_empty %s" % t, "array_contains %s %s" % (t, a), "array_concat %s %s" % (t, t), "array_join %s =44" % t,
            "map_contains_key %s %s" % (t, k), "map_contains_value %s %s" % (t, v), "map_is_empty %s" % t,
            "set_from_array %s" % t, "set_is_empty %s" % t]


OWN_FILES = ["coq/theories/CollectionsJoin.v", "coq/theories/CollectionsJoinStr.v", "coq/theories/CollectionsJoinProof.v",
             "coq/theories/Collections.v", "coq/theories/CollectionsSpec.v", "coq/theories/CollectionsProof.v",
             "coq/theories/CollectionsScripts.v", "coq/theories/CollectionsTables.v", "coq/generated/GenCollections.v",
             "coq/props/C12.v", "coq/extract/C12_extract.v"]


def own_hygiene(ck):
    """the same test as Check.hygiene, on the files this property is built from (the development of another
    property may be mid-edit; Print Assumptions above already shows that nothing admitted is used here)"""
    import re
    bad = []
    for rel in OWN_FILES:
        try:
            txt = open(os.path.join(vlib.ROOT, rel), encoding="utf8").read()
        except OSError:
            bad.append(rel + ": missing")
            continue
        depth = 0
        for n, line in enumerate(txt.splitlines(), 1):
            if re.search(r"\b(Admitted|admit|Axiom|Axioms|Parameter|Parameters|Conjecture|Abort All)\b|Unset Guard|bypass_check|"
                         r"type-in-type|impredicative-set|Admit Obligations", line) and not re.match(r"\s*\(\*.*\*\)\s*$", line):
                bad.append("%s:%d: %s" % (rel, n, line.strip()))
            if re.match(r"\s*Section\b", line):
                depth += 1
            if re.match(r"\s*End\b", line):
                depth = max(0, depth - 1)
            if re.match(r"\s*(Variable|Variables|Hypothesis|Hypotheses)\s|\s*Context\s*[`{(]", line) and depth == 0:
                bad.append("%s:%d: %s outside a Section" % (rel, n, line.strip()))
    ck.obligations.append("hygiene (files of C12): no Admitted/admit/Axiom/Parameter/Conjecture, no disabled checks, Variables only in Sections")
    if bad:
        ck.broken.append("hygiene: " + "; ".join(bad[:5]))
    else:
        ck.discharged.append("hygiene")


def load_aliases():
    ALIASES.update(source_aliases())
    for cn, al in ALIASES.items():
        for a in al:
            ALIAS_OF[a] = cn


def replay(ck, data):
    """vcheck C12 --replay file: re-run the recorded history on both sides; status 1 if they still disagree"""
    wire = data.get("wire")
    if wire is None:
        print("replay: this file names a broken obligation, not an input; re-run the check itself")
        return 1
    load_aliases()
    ck.ocaml_build()
    ck.harness_build(["c12"])
    ops = wire.split("\t")[1:]
    m = ck.model([wire])[0].split("\t")
    i = ck.impl([wire])[0].split("\t")
    cm = canon_side(ops, m)[0] if len(m) == len(ops) else []
    ci = canon_side(ops, i)[0] if len(i) == len(ops) else []
    for k, o in enumerate(ops):
        print("%3d %-50s model %-30s implementation %s" % (k, show_op(o)[:50], (cm[k:k + 1] or ["?"])[0], (ci[k:k + 1] or ["?"])[0]))
    status, step, detail, notes = compare_history(ops, m, i)
    print("REPLAY: " + ("agree now" if status != "diff" else "still disagree at step %d: %s" % (step, detail))
          + (" (known findings seen: %s)" % ", ".join(sorted(notes)) if notes else ""))
    return 1 if status == "diff" else 0


def run(ck):
    ck.gen_from_source()
    load_aliases()
    ck.coq_build(["props/C12.vo", "extract/C12_extract.vo"])
    ck.print_assumptions(["DSP.C12"], ["DSP.C12." + t for t in THEOREMS])
    ck.source_tie("collections")
    ck.hygiene()
    ck.ocaml_build()
    ck.harness_build(["c12"])
    model_ok = not any(b.startswith("ocaml") for b in ck.broken) and os.path.exists(
        os.path.join(vlib.ROOT, "ocaml", "bin", "c12_model"))
    thorough = ck.tier == "thorough"
    rng = ck.rng
    hist = []          # (family, ops)

    # corpus: witnesses of the known findings and of past mutants, always first
    corpus = [
        ["array =97 =98", "array_concat @0 =110.111.112.101", "array_concat =110.111.112.101", "dump"],            # F6
        ["array =97 =98 =99", "array_join @0 =35", "array_join @0 =44", "dump"],                                     # F7
        ["array =97 =98 =99", "array_remove @0 =49", "array_remove @0 =50", "array_remove @0 =49", "dump"],
        ["set_new =97", "array @0", "map", "map_put @2 =107 @1", "array @2 @2 =120", "array_push @1 @3", "dump",
         "release =45.114 @3", "dump"],                                                                               # cyclic release
        ["set_new =97 =98", "set_put @0 =99 =97", "set_size @0", "set_remove @0 =97", "set_size @0", "dump"],
    ]
    cdir = os.path.join(vlib.ROOT, "corpus", "C12")
    if os.path.isdir(cdir):
        for fn in sorted(os.listdir(cdir)):
            if fn.endswith(".wire"):
                for l in open(os.path.join(cdir, fn), encoding="utf8").read().splitlines():
                    if l.startswith("H\t"):
                        corpus.append(l.split("\t")[1:])
    for c in corpus:
        hist.append(("corpus", c))
    n_corpus = len(hist)

    # exhaustive kind confusion: fixed setup (one collection of every kind, a non-collection value, a
    # released handle, an unknown name), then every command on every target, then every second command
    for t1 in TARGETS:
        for o1 in confusion_ops(t1):
            hist.append(("confusion", SETUP + [o1, "dump"]))
            for t2 in (TARGETS if thorough else [t1, "@0"]):
                for o2 in confusion_ops(t2):
                    hist.append(("confusion", SETUP + [o1, o2, "dump"]))
    n_exh = len(hist) - n_corpus

    # random histories
    n_rand = 30000 if thorough else 3500
    for i in range(n_rand):
        x = rng.random()
        L = rng.randint(1, 80) if x < 0.8 else rng.randint(1, 12)
        g = Gen(rng, allow_k7=(i % 10 == 0), allow_unsafe_exposed=(i % 25 == 0),
                script_weight=rng.choice([0.3, 1.0, 1.0, 2.5]))
        hist.append(("random", g.history(L)))

    # dense: short histories with every collection re-read after every single op
    n_dense = 4000 if thorough else 500
    for i in range(n_dense):
        g = Gen(rng, script_weight=rng.choice([0.5, 1.0, 2.0]))
        g.history(rng.randint(1, 14))
        dense = []
        for o in g.ops[:-1]:
            dense.append(o)
            if o != "dump":
                dense.append("dump")
        hist.append(("dense", dense))

    lines = ["H\t" + "\t".join(ops) for (_, ops) in hist]
    found = False
    stats = {"ok": 0, "truncated": 0, "F6": 0, "F7": 0, "F7-exposed": 0, "F6-not-reproduced": 0}
    if model_ok:
        m = ck.model(lines)
        im = ck.impl(lines)
        nontriv = set()
        opcount, outkinds, lens, branches = {}, {}, {}, {}
        for k, ((fam, ops), ml, il) in enumerate(zip(hist, m, im)):
            mf, jf = ml.split("\t"), il.split("\t")
            status, step, detail, notes = compare_history(ops, mf, jf)
            for nt in notes:
                stats[nt] += 1
            if status in ("ok", "truncated"):
                stats[status] += 1
                upto = len(ops) if status == "ok" else step + 1
                for op, f in zip(ops[:upto], mf[:upto]):
                    nm = op.split(" ")[0]
                    if nm != cname(op):
                        opcount["(by alias)"] = opcount.get("(by alias)", 0) + 1
                    nm = cname(op)
                    opcount[nm] = opcount.get(nm, 0) + 1
                    kk = f[:2] if f[:1] == "E" else f[:1]
                    if "~" in f:
                        kk = "F6 step (differs from the specification)"
                    outkinds[kk] = outkinds.get(kk, 0) + 1
                    g = f.split("~")[0]
                    br = ("true" if g == "V116.114.117.101" else "false" if g == "V102.97.108.115.101" else
                          "handle" if g.startswith("V104.97.110.100.108.101.58") else g[:2] if g[:1] == "E" else
                          "none" if g == "N" else "value" if g[:1] == "V" else g[:1])
                    branches.setdefault(nm, {})
                    branches[nm][br] = branches[nm].get(br, 0) + 1
                lens[len(ops) // 10 * 10] = lens.get(len(ops) // 10 * 10, 0) + 1
                if any(f[:1] == "D" and "|" in f for f in mf):
                    nontriv.add(lines[k])
                continue
            found = True
            if len(ck.violations) >= 5:
                continue
            # shrink: cut after the failing step, then neutralise ops one at a time
            cur = list(ops[:step + 1] if step >= 0 else ops)
            if "dump" not in cur[-1:]:
                cur.append("dump")

            def fails(cand):
                l = "H\t" + "\t".join(cand)
                mm = ck.model([l])[0].split("\t")
                ii = ck.impl([l])[0].split("\t")
                return compare_history(cand, mm, ii)[0] == "diff"
            if fails(cur):
                for j in range(len(cur) - 1):
                    if cur[j].startswith("is_set ="):
                        continue
                    cand = cur[:j] + ["is_set =110.111.112"] + cur[j + 1:]
                    if fails(cand):
                        cur = cand
            else:
                cur = list(ops)
            l = "H\t" + "\t".join(cur)
            mm = ck.model([l])[0].split("\t")
            ii = ck.impl([l])[0].split("\t")
            st2, step2, detail2, _ = compare_history(cur, mm, ii)
            ck.violation({
                "kind": "model-vs-implementation (history of collection commands)", "family": fam, "seed": ck.seed,
                "history": [show_op(o) for o in cur if not o.startswith("is_set =110.111.112")],
                "wire": l, "failing_step": step2, "detail": detail2 or detail,
                "model_fields": mm, "implementation_fields": ii,
                "theorems": ["C12_refines", "C12_mismatch", "C12_release"],
                "replay_cmd": "printf '%s\\n' | .cache/cargo-target/release/c12   # and | ocaml/bin/c12_model" % l.replace("\t", "\\t"),
            })
        for (tag, text) in (("F6", "array_concat succeeds on an invalid first argument after an earlier array_concat failed "
                                   "during validation (stale for-in state); witness: a = array x ; array_concat ${a} nope ; array_concat nope"),
                            ("F7", "array_join leaves a trailing separator for separators such as '#' (eval re-serialisation in "
                                   "`if not is_empty ${sep}`); witness: array_join [a,b,c] '#' = 'a#b#c#'")):
            if stats[tag]:
                if any(k.get("id") == tag for k in ck.open_findings()):
                    ck.known(tag + " " + text)
                else:
                    found = True
                    ck.violation({"kind": "behaviour of finding class %s observed, but known_findings.json does not list it as an open finding of C12" % tag,
                                  "class": tag, "what": text, "count": stats[tag], "seed": ck.seed})
        ck.coverage.update({
            "evaluations": len(hist),
            "distinct_nontrivial": len(nontriv),
            "rule": "one evaluation = one history run on both sides in a fresh context; non-trivial = distinct history that "
                    "passed the comparison and re-read at least one allocated collection in a dump",
            "exhaustive": True,
            "exhaustive_part": {"kind_confusion_histories": n_exh,
                                "scope": "7-op setup with one array, map, set, non-collection value, released handle and an unknown "
                                         "name; every one of %d command forms on every one of 6 targets, followed by every command "
                                         "form on %s" % (len(confusion_ops("@0")), "every target" if thorough else "the same target and on the array")},
            "families": {"corpus": n_corpus, "confusion": n_exh, "random": n_rand, "dense (dump after every op)": n_dense},
            "history_length_distribution": dict(sorted(lens.items())),
            "ops_compared": sum(opcount.values()), "ops_by_command": dict(sorted(opcount.items())),
            "model_output_kinds": dict(sorted(outkinds.items())),
            "outcomes_by_command": {k: dict(sorted(v.items())) for k, v in sorted(branches.items())},
            "status": stats,
            "samples": [[show_op(o) for o in hist[0][1]], [show_op(o) for o in hist[min(n_corpus + 5, len(hist) - 1)][1]],
                        [show_op(o) for o in hist[-1][1][:12]]],
            "partial": "all nine script-implemented commands are hand-translated compositions of the native models (for-in as "
                       "repeated re-reading of the live list; array_join with the C09 model of eval re-serialisation and the C16 "
                       "models of strlen / calc / substring), proved against the specification; array_join only for arguments "
                       "outside the F7 classes (C12_array_join_F7_refuted for the rest); the for-in call stack (F6) is not modelled: "
                       "array_concat's as-is definition carries the resume index instead",
        })
    else:
        ck.coverage.update({"evaluations": 0, "distinct_nontrivial": 0, "rule": "model did not build", "samples": []})
    ck.report_broken(found)
    ck.assumptions += [
        "put_handle draws keys that were never drawn before (oracle rnd, injective): the code draws 20 random alphanumerics "
        "and does not test for a collision (probability ~ 2^-119 per pair)",
        "HashMap / HashSet iteration order is an arbitrary permutation (oracle ord); the harness puts the arrays produced by "
        "map_keys / set_to_array into canonical order right after the command, the model's driver uses the same order",
        "Context.state[\"handles\"] is a SubState (get_sub_state recreates it otherwise); list items and map values are "
        "String or Number64Bit (what the C12 commands create); error message texts are mapped to seven kinds",
        "HashMap / HashSet / Vec themselves (std) are trusted: the model uses finite maps, finite sets and lists for them",
        "script-implemented commands: arguments that reach `if not <command> ${arg}` and contain # $ % \" \\ or white space other "
        "than a space are outside the compared domain (finding F7 of C09); only 'error or false' is required there",
    ]
