"""C17 — encodings round-trip.

Proved (coq/props/C17.v): base64, UTF-8 and hex round trips for all byte strings / all texts of
scalar values / all u64, on arithmetic models of the base64 crate's STANDARD engine, of
String::into_bytes / str::from_utf8 and of u64 parse / {:#x} / from_str_radix.  The models are tied
to the crates by the correspondence run (encode AND strict decode on valid and invalid inputs).
JSON: the collection glue (create_structure / put_handle / encode_from_state_value / encode_from_state) is
modelled in coq/theories/Json.v on serde_json's already parsed Value and C17_json proves that the round trip
is the documented normalisation for every document; the extracted model AND the extracted spec (normalise)
are compared with the implementation on every generated document, the Python oracle is kept as a third
cross-check.  serde_json's text layer stays an oracle.
Properties format: the java-properties 2.0.0 writer (escaping, windows-1252 EncodingWriter with its buffer, unpadded
\\u escapes) and reader (windows-1252 decoding, natural / logical lines, LINE_RE, unescape) and the glue of
map_to_properties / map_load_properties (prefix, from_utf8, trim_end_matches) are modelled in coq/theories/CodecProps.v;
C17_properties proves the round trip for all maps / orders / strings of the exact domain `representable`.  The check
compares (a) the text of the real map_to_properties with the extracted writer on every generated map, (b) the real
map_load_properties with the extracted reader on the texts the implementation wrote AND on a malformed stream
(comments, continuation lines, separators, escapes, \\u sequences, CR/LF/CRLF, high bytes, long lines), (c) on the
domain the real round trip with the theorem's right-hand side.  Off the domain (known finding F18, and the
truncated-escape class) only model == implementation is required."""
import itertools
import json
import re
import vlib
from vlib import enc_str, dec_str, enc_list, dec_list
from props import c17_props

THEOREMS = ["C17_b64", "C17_utf8", "C17_utf8_bytes", "C17_text_b64", "C17_hex", "C17_hex_cmds", "C17_nonvacuous",
            "C17_json", "C17_json_ex", "C17_json_fuel", "C17_json_fresh", "C17_json_store", "C17_json_nonvacuous",
            "C17_properties", "C17_properties_prefix", "C17_properties_writer", "C17_properties_fuel", "C17_properties_ascii",
            "C17_properties_short", "C17_properties_nodup", "C17_properties_nonvacuous", "C17_properties_F18_witnesses",
            "C17_properties_F18_refuted", "C17_properties_truncation_witnesses", "C17_properties_truncation_refuted",
            "C17_properties_bom_witnesses", "C17_properties_bom_refuted", "C17_properties_lines"]
PROPS_THEOREMS = ["C17_properties", "C17_properties_prefix", "C17_properties_writer"]
JSON_THEOREMS = ["C17_json", "C17_json_fresh", "C17_json_fuel"]


def enc_bytes(b):
    return "e" if not b else ".".join(str(x) for x in b)


EDGE = [0x00, 0x7f, 0x80, 0x8f, 0x90, 0x9f, 0xa0, 0xbf, 0xc0, 0xc1, 0xc2, 0xdf, 0xe0, 0xe1, 0xec, 0xed, 0xee, 0xef,
        0xf0, 0xf1, 0xf3, 0xf4, 0xf5, 0xff]
B64A = ["A", "B", "Q", "g", "/", "+", "=", " ", "-", "_", "\n"]
SCALAR_EDGES = [0, 1, 0x7f, 0x80, 0x7ff, 0x800, 0xfff, 0x1000, 0xcfff, 0xd000, 0xd7ff, 0xe000, 0xfffd, 0xffff, 0x10000,
                0x3ffff, 0x40000, 0xfffff, 0x100000, 0x10ffff, 9, 10, 13, 27, 0x85, 0x2028, 0xfeff]


def rand_text(rng, n):
    out = []
    for _ in range(n):
        r = rng.random()
        if r < 0.25:
            c = rng.choice(SCALAR_EDGES)
        elif r < 0.55:
            c = rng.randint(0, 0x7f)
        elif r < 0.7:
            c = rng.randint(0x80, 0x7ff)
        elif r < 0.85:
            c = rng.choice([rng.randint(0x800, 0xd7ff), rng.randint(0xe000, 0xffff)])
        else:
            c = rng.randint(0x10000, 0x10ffff)
        out.append(chr(c))
    return "".join(out)


W1252 = {0x20AC, 0x201A, 0x0192, 0x201E, 0x2026, 0x2020, 0x2021, 0x02C6, 0x2030, 0x0160, 0x2039, 0x0152, 0x017D, 0x2018, 0x2019,
         0x201C, 0x201D, 0x2022, 0x2013, 0x2014, 0x02DC, 0x2122, 0x0161, 0x203A, 0x0153, 0x017E, 0x0178}


def in_f18(c):
    """known finding F18: code points the java-properties writer cannot round-trip"""
    return (c < 0x20 and c not in (9, 10, 12, 13)) or 0x80 <= c <= 0xfff or c in W1252 or c >= 0x10000


def prop_text(rng, n):
    out = []
    while len(out) < n:
        c = rng.choice([rng.randint(0x20, 0x7f), rng.choice([9, 10, 12, 13, 32, 35, 33, 58, 61, 92]), rng.randint(0x1000, 0xd7ff), rng.randint(0xe000, 0xffff)])
        if not in_f18(c):
            out.append(chr(c))
    return "".join(out)


# ---- JSON oracle: the documented normalisation (scalars become strings, nulls dropped) ---------
FLOATS = [("1.5", "1.5"), ("-0.25", "-0.25"), ("1e3", "1000.0"), ("1.0", "1.0"), ("2.5e-3", "0.0025")]


def rand_tree(rng, depth):
    """a parsed document: ("n",) | ("b", bool) | ("#", source text, serde's to_string) | ("s", text) |
    ("a", items) | ("o", [(key, value)...] in the order of the TEXT, unique keys, whitespace)"""
    r = rng.random()
    if depth <= 0 or r < 0.45:
        k = rng.random()
        if k < 0.15:
            return ("n",)
        if k < 0.3:
            return ("b", rng.choice([True, False]))
        if k < 0.5:
            n = rng.choice([0, 1, -1, 42, 2 ** 31, -2 ** 63, 2 ** 64 - 1, rng.randint(-10 ** 6, 10 ** 6)])
            return ("#", str(n), str(n))
        if k < 0.6:
            t, sv = rng.choice(FLOATS)
            return ("#", t, sv)
        s = rand_text(rng, rng.randint(0, 6)) if rng.random() < 0.5 else rng.choice(
            ["", "a", "a b", "x.y", "k[0]", "[OBJECT]", "true", "null", "5", "\"", "\\", "\n", "é", "😀", "handle:x",
             "handle:", "handle:00", "handle:0x", "Handle:0", "handle:0 "])
        return ("s", s)
    if r < 0.72:
        return ("a", [rand_tree(rng, depth - 1) for _ in range(rng.randint(0, 4))])
    keys = []
    pool = ["a", "b", "a.b", "a b", "c[0]", "", "é", "length", "x.length", "k]", "[", ".", "A", "aa", "handle:0"]
    for _ in range(rng.randint(0, 4)):
        k = rng.choice(pool) if rng.random() < 0.8 else rand_text(rng, rng.randint(1, 4))
        if k not in keys:
            keys.append(k)
    return ("o", [(k, rand_tree(rng, depth - 1)) for k in keys], rng.choice(["", " ", "\n "]))


def tree_text(t):
    """the JSON text handed to json_parse (object keys in generation order, not sorted)"""
    k = t[0]
    if k == "n":
        return "null"
    if k == "b":
        return "true" if t[1] else "false"
    if k == "#":
        return t[1]
    if k == "s":
        return json.dumps(t[1], ensure_ascii=False)
    if k == "a":
        return "[" + ",".join(tree_text(x) for x in t[1]) + "]"
    ws = t[2] if len(t) > 2 else ""
    return "{" + ",".join(ws + json.dumps(key, ensure_ascii=False) + ":" + ws + tree_text(x) for key, x in t[1]) + "}"


def tree_oracle(t):
    """Python oracle: the normalised document as a Python value, None when dropped"""
    k = t[0]
    if k == "n":
        return None
    if k == "b":
        return "true" if t[1] else "false"
    if k == "#":
        return t[2]
    if k == "s":
        return t[1]
    if k == "a":
        return [v for v in (tree_oracle(x) for x in t[1]) if v is not None]
    return {key: v for key, v in ((key, tree_oracle(x)) for key, x in t[1]) if v is not None}


def tree_wire(t, out):
    """prefix notation of the PARSED document for the extracted model (see ocaml/c17_driver.ml); objects in
    serde_json's Map (BTreeMap) iteration order = keys sorted by their UTF-8 bytes"""
    k = t[0]
    if k == "n":
        out.append("n")
    elif k == "b":
        out.append("t" if t[1] else "f")
    elif k == "#":
        out.append("#" + enc_str(t[2]))
    elif k == "s":
        out.append("s" + enc_str(t[1]))
    elif k == "a":
        out.append("a%d" % len(t[1]))
        for x in t[1]:
            tree_wire(x, out)
    else:
        items = sorted(t[1], key=lambda kv: kv[0].encode("utf8"))
        out.append("o%d" % len(items))
        for key, x in items:
            out.append("k" + enc_str(key))
            tree_wire(x, out)
    return out


HNAME = re.compile(r"^handle:(0|[1-9][0-9]*)$")    # Json.is_hnameb: literally one of the MODEL's handle names


def tree_leaves(t):
    k = t[0]
    if k == "b":
        return ["true" if t[1] else "false"]
    if k == "#":
        return [t[2]]
    if k == "s":
        return [t[1]]
    if k == "a":
        return [s for x in t[1] for s in tree_leaves(x)]
    if k == "o":
        return [s for _, x in t[1] for s in tree_leaves(x)]
    return []


def tree_in_domain(t):
    """Json.json_dom: unique keys per object (by construction) and no leaf is a model handle name"""
    return not any(HNAME.match(s) for s in tree_leaves(t))


def tree_stats(t):
    """(depth, number of nulls, number of containers)"""
    if t[0] == "a":
        sub = [tree_stats(x) for x in t[1]]
    elif t[0] == "o":
        sub = [tree_stats(x) for _, x in t[1]]
    else:
        return 0, (1 if t[0] == "n" else 0), 0
    return 1 + max([d for d, _, _ in sub] + [0]), sum(n for _, n, _ in sub), 1 + sum(c for _, _, c in sub)


def small_trees():
    """every document of depth <= 2 over the leaves null/true/5/"s", arrays of length <= 2 and objects with
    keys within {b, a} (written in that order, so that the Map's sorting is exercised)"""
    d0 = [("n",), ("b", True), ("#", "5", "5"), ("s", "s")]
    def level(sub):
        out = [("a", [])] + [("a", [x]) for x in sub] + [("a", [x, y]) for x in sub for y in sub]
        out += [("o", [], "")] + [("o", [("b", x)], "") for x in sub] + [("o", [("a", x)], "") for x in sub]
        out += [("o", [("b", x), ("a", y)], "") for x in sub for y in sub]
        return out
    d1 = d0 + level(d0)
    return d1 + level(d1)


def nest(n, leaf):
    t = leaf
    for i in range(n):
        t = ("a", [("n",), t, ("s", "x")]) if i % 2 else ("o", [("k", t), ("z", ("n",))], "")
    return t


FIXED_TREES = [
    ("n",), ("b", False), ("#", "0", "0"), ("s", ""), ("a", []), ("o", [], ""),
    ("a", [("n",), ("n",)]), ("o", [("a", ("n",))], " "), ("a", [("a", [("a", [("n",)])])]),
    ("o", [("a", ("a", [("#", "1", "1"), ("n",), ("o", [("b", ("n",)), ("c", ("b", True))], ""), ("a", [])])), ("n", ("n",)), ("s", ("s", "x"))], ""),
    nest(8, ("s", "deep")), nest(9, ("n",)), nest(12, ("a", [])),
    ("a", [("s", "v%d" % i) if i % 3 else ("n",) for i in range(120)]),
    ("o", [("k%03d" % ((i * 37) % 101), ("a", [("#", str(i), str(i))])) for i in range(60)], ""),
    ("a", [("s", "handle:x"), ("s", "handle:00"), ("s", "handle:"), ("s", "HANDLE:0")]),
]
OFF_DOMAIN_TREES = [("a", [("s", "handle:0")]), ("s", "handle:0"), ("o", [("k", ("a", [("s", "handle:1")]))], "")]


def serde_dump(v):
    """serde_json's compact to_string with BTreeMap key order"""
    if isinstance(v, str):
        out = ['"']
        for c in v:
            o = ord(c)
            if c == '"':
                out.append('\\"')
            elif c == "\\":
                out.append("\\\\")
            elif c == "\b":
                out.append("\\b")
            elif c == "\f":
                out.append("\\f")
            elif c == "\n":
                out.append("\\n")
            elif c == "\r":
                out.append("\\r")
            elif c == "\t":
                out.append("\\t")
            elif o < 0x20:
                out.append("\\u%04x" % o)
            else:
                out.append(c)
        out.append('"')
        return "".join(out)
    if isinstance(v, list):
        return "[" + ",".join(serde_dump(x) for x in v) + "]"
    if isinstance(v, dict):
        ks = sorted(v, key=lambda k: k.encode("utf8"))
        return "{" + ",".join(serde_dump(k) + ":" + serde_dump(v[k]) for k in ks) + "}"
    raise ValueError(v)


def run(ck):
    ck.gen_from_source()
    ck.coq_build(["props/C17.vo", "extract/C17_extract.vo"])
    ck.print_assumptions(["DSP.C17"], ["DSP.C17." + t for t in THEOREMS])
    ck.source_tie("strings")
    ck.source_tie("json")
    ck.source_tie("codeccmds")
    ck.source_tie("mapload")
    ck.hygiene()
    ck.ocaml_build()
    ck.harness_build(["c17"])
    thorough = ck.tier == "thorough"
    rng = ck.rng
    both = []    # lines run on model and implementation, compared verbatim
    # base64 encode: all byte strings of length <= 2, random longer
    for n in range(0, 3):
        for b in itertools.product(range(256), repeat=n):
            if n == 2 and not thorough and (b[0] * 256 + b[1]) % 5:
                continue
            both.append("ENC\t" + enc_bytes(b))
    n_enc_exh = len(both)
    for n in (1023, 1024, 4096, 4097, 65536, 65537):
        both.append("ENC\t" + enc_bytes([rng.randint(0, 255) for _ in range(n)]))
    for _ in range(20000 if thorough else 3000):
        both.append("ENC\t" + enc_bytes([rng.randint(0, 255) for _ in range(rng.randint(3, 300 if rng.random() < 0.1 else 24))]))
    # base64 decode: strict decoder on valid and invalid input
    for n in range(0, 6 if thorough else 5):
        for t in itertools.product(B64A, repeat=n):
            both.append("DEC\t" + enc_str("".join(t)))
    import base64 as pyb64
    for _ in range(20000 if thorough else 4000):
        raw = bytes(rng.randint(0, 255) for _ in range(rng.randint(0, 20)))
        s = pyb64.b64encode(raw).decode()
        r = rng.random()
        if r < 0.5 and s:
            k = rng.randrange(len(s))
            s = s[:k] + rng.choice(B64A + ["C", "z", "9"]) + s[k + (0 if rng.random() < 0.3 else 1):]
        elif r < 0.6:
            s = s.rstrip("=")
        both.append("DEC\t" + enc_str(s))
    # utf8 decode: all 1- and 2-byte sequences, boundary bytes to length 3 (4 in thorough)
    for n in range(0, 3):
        for b in itertools.product(range(256), repeat=n):
            if n == 2 and not thorough and b[0] < 0x80 and b[1] % 7:
                continue
            both.append("U8D\t" + enc_bytes(b))
    for n in range(3, 5 if thorough else 4):
        for b in itertools.product(EDGE, repeat=n):
            both.append("U8D\t" + enc_bytes(b))
    for _ in range(3000):
        b = list(rand_text(rng, rng.randint(1, 5)).encode("utf8", "surrogatepass"))
        if rng.random() < 0.6 and b:
            k = rng.randrange(len(b))
            b[k] = rng.choice(EDGE)
        both.append("U8D\t" + enc_bytes(b))
    # utf8 encode: every scalar value in thorough (64 per case), edges + sample in quick
    if thorough:
        scal = [c for c in range(0x110000) if not 0xd800 <= c < 0xe000]
    else:
        scal = sorted(set(SCALAR_EDGES + [rng.randint(0, 0x10ffff) for _ in range(20000)]) - set(range(0xd800, 0xe000)))
    for k in range(0, len(scal), 64):
        both.append("U8E\t" + ".".join(str(c) for c in scal[k:k + 64]))
    # hex
    nums = [0, 1, 9, 10, 15, 16, 255, 256, 4095, 2 ** 31, 2 ** 32 - 1, 2 ** 32, 2 ** 63 - 1, 2 ** 63, 2 ** 64 - 2, 2 ** 64 - 1, 2 ** 64, 2 ** 64 + 1, 10 ** 30]
    nums += [rng.randint(0, 2 ** 64 - 1) for _ in range(3000)] + [rng.randint(0, 2 ** k) for k in range(1, 70) for _ in range(5)]
    hexe = [str(n) for n in nums] + ["+5", "-1", "", " 1", "1 ", "1_0", "１", "0x10", "+", "++1", "00012", "1e3", "1.0", "a"]
    for s in hexe:
        both.append("HEXE\t" + enc_str(s))
    hexd = ["0x%x" % n for n in nums] + ["%X" % n for n in nums[:40]] + ["0X1F", "0x0x1f", "0x", "", "+ff", "0x+ff", "-ff", "g", "0xg", " ff", "ff ",
                                                                      "0x0000000000000000001", "x", "0", "00x1", "0x0x0x0x7", "fFfF", "１"]
    for s in hexd:
        both.append("HEXD\t" + enc_str(s))

    m = ck.model(both)
    i = ck.impl(both)
    found = False
    dist = {}
    nontriv = set()
    for k, (line, a, b) in enumerate(zip(both, m, i)):
        kind = line.split("\t")[0]
        key = kind + ":" + (a[:1] if a else "?")
        dist[key] = dist.get(key, 0) + 1
        if a[:1] in ("V", "B") and len(line) > 12:
            nontriv.add(line)
        if a != b:
            found = True
            if len(ck.violations) < 5:
                ck.violation({"kind": "model-vs-implementation", "case": line, "wire": line, "model": a, "implementation": b,
                              "theorems": THEOREMS, "seed": ck.seed})
    # composite round trips on the implementation, oracle = the property itself (model supplies the expected base64)
    texts = ["", "a", "hé😀", "\x00", "a\x00b", "\n", "\r\n", "\t", " ", "\"", "\\", "${x}", "#", "=", " ", "﻿"]
    # texts that LOOK like escape notations of other languages: a text is its own bytes, nothing is decoded (seed C17-w7-m2:
    # string_to_bytes turned \xHH into one byte)
    ESC = ["\\x41", "C:\\x64\\tools", "\\xff", "\\x00", "\\x4", "[\\x00-\\x1f]+", "\\u0041", "\\u{41}", "\\U0001F600", "\\n", "\\r\\n", "\\t", "\\0", "\\101",
           "\\\\", "\\\"", "%41", "%E2%82%AC", "&#65;", "&amp;", "=41", "=?utf-8?q?a?=", "0x41", "\\N{BULLET}", "$'\\x41'", "^A", "\\e[0m", "\\a\\b\\f\\v"]
    texts += ESC + [a + b for a in ESC[:12] for b in ("", "z", "é")] + [rand_text(rng, 3) + rng.choice(ESC) + rand_text(rng, 3) for _ in range(200)]
    texts += [rand_text(rng, rng.randint(1, 40)) for _ in range(4000 if thorough else 800)]
    texts += [rand_text(rng, n) for n in (255, 256, 1000, 4095, 4096, 4097, 9000, 70000)]   # sizes around typical buffer limits
    exp_b64 = ck.model(["ENC\t" + enc_bytes(list(t.encode("utf8"))) for t in texts])
    for kind in ("RT", "WRAP"):
        sub = texts if kind == "RT" else texts[:300]
        out = ck.impl(["%s\t%s" % (kind, enc_str(t)) for t in sub])
        for t, e, o in zip(sub, exp_b64, out):
            want = "%s\tV%s" % (e, enc_str(t))
            dist[kind] = dist.get(kind, 0) + 1
            nontriv.add(kind + t)
            if o != want:
                found = True
                if len(ck.violations) < 5:
                    ck.violation({"kind": "round trip text -> bytes -> base64 -> bytes -> text (%s)" % kind, "text": t,
                                  "wire": "%s\t%s" % (kind, enc_str(t)), "expected": want, "implementation": o,
                                  "theorems": ["C17_text_b64"], "seed": ck.seed})
    u64s = [n for n in nums if n < 2 ** 64]
    out = ck.impl(["HEXRT\t" + enc_str(str(n)) for n in u64s])
    for n, o in zip(u64s, out):
        want = "V%s\tV%s" % (enc_str("0x%x" % n), enc_str(str(n)))
        dist["HEXRT"] = dist.get("HEXRT", 0) + 1
        if o != want:
            found = True
            if len(ck.violations) < 5:
                ck.violation({"kind": "hex round trip", "n": n, "wire": "HEXRT\t" + enc_str(str(n)), "expected": want,
                              "implementation": o, "theorems": ["C17_hex_cmds"], "seed": ck.seed})
    # JSON: implementation vs the extracted model (create_structure + encode_from_state) vs the extracted spec
    # (normalise) vs the Python oracle.  Corpus, exhaustive small scope, then random documents.
    exh = small_trees()
    if not thorough:
        exh = [t for k, t in enumerate(exh) if k < 60 or k % 3 == ck.seed % 3]
    trees = FIXED_TREES + exh + [rand_tree(rng, rng.randint(0, 4)) for _ in range(30000 if thorough else 1500)]
    trees += [rand_tree(rng, rng.randint(5, 6)) for _ in range(2000 if thorough else 60)]
    # large documents: hundreds of containers in one document, wide and (up to serde_json's own nesting limit of 128) deep
    # (seed C17-w6-m1: a "depth" guard of the encoder that counted every container met so far stopped following handles
    # after the 128th container of a document)
    def leaf_(i_):
        return rng.choice([("#", str(i_), str(i_)), ("s", "v%d" % i_), ("b", True), ("n",)])
    for n_ in (100, 129, 130, 200, 300) + ((1000, 3000) if thorough else (700,)):
        trees.append(("a", [("a", [leaf_(i_)]) for i_ in range(n_)]))
        trees.append(("o", [("k%d" % i_, ("o", [("id", leaf_(i_)), ("tags", ("a", [("s", "t")]))], "")) for i_ in range(n_ // 2)], ""))
        trees.append(("a", [rand_tree(rng, 2) for _ in range(n_)]))
    for d_ in (40, 100, 120):
        t_ = ("s", "bottom")
        for i_ in range(d_):
            t_ = ("a", [("#", str(i_), str(i_)), t_]) if i_ % 2 else ("o", [("in", t_), ("n", ("#", str(i_), str(i_)))], "")
        trees.append(t_)
    n_off_gen = sum(1 for t in trees if not tree_in_domain(t))
    trees = [t for t in trees if tree_in_domain(t)] + OFF_DOMAIN_TREES
    jl = ["%s\t%s" % (enc_str(tree_text(t)), " ".join(tree_wire(t, []))) for t in trees]
    out = ck.impl(["JSON\t" + x for x in jl])
    mout = ck.model(["JSON\t" + x for x in jl])
    sout = ck.model(["JSONS\t" + x for x in jl])
    jstat = {"in_domain": 0, "off_domain": 0, "no_value": 0, "with_nulls_dropped": 0, "nested": 0, "depth": {}}

    def show(o):
        return dec_str(o[1:]) if o[:1] == "V" else o

    for t, x, o, mo, so in zip(trees, jl, out, mout, sout):
        text = tree_text(t)
        dist["JSON"] = dist.get("JSON", 0) + 1
        if not tree_in_domain(t):
            jstat["off_domain"] += 1
            if mo != "OFFDOMAIN":       # the Python domain predicate and Json.json_dom must agree
                found = True
                ck.violation({"kind": "domain predicates disagree (python in_domain vs Json.json_dom)", "document": text,
                              "wire": "JSON\t" + x, "model": mo, "seed": ck.seed})
            continue
        v = tree_oracle(t)
        want = "N" if v is None else "V" + enc_str(serde_dump(v))
        d, nn, nc = tree_stats(t)
        jstat["in_domain"] += 1
        jstat["no_value"] += o == "N"
        jstat["with_nulls_dropped"] += nn > 0 and d > 0
        jstat["nested"] += nc > 1
        jstat["depth"][d] = jstat["depth"].get(d, 0) + 1
        if d > 0:
            nontriv.add("J" + text)
        if not (o == mo == so == want):
            found = True
            if len(ck.violations) < 5:
                if o != so:
                    kind = "json_parse --collection | json_encode --collection differs from the normalised document (extracted spec)"
                elif o != mo:
                    kind = "model-vs-implementation: JSON collection round trip"
                elif mo != so:
                    kind = "extracted model differs from extracted spec although proved equal (extraction / driver problem)"
                else:
                    kind = "Python oracle differs from implementation = model = spec (oracle / serde text layer problem)"
                ck.violation({"kind": kind, "document": text, "wire": "JSON\t" + x,
                              "implementation": o, "implementation_text": show(o),
                              "model": mo, "model_text": show(mo), "spec": so, "spec_text": show(so),
                              "python_oracle": want, "python_oracle_text": None if v is None else serde_dump(v),
                              "theorems": JSON_THEOREMS, "seed": ck.seed})
    # history stream: the same document parsed twice in ONE runtime, the first result edited in between (array_push / map_put
    # on its root); the second parse | encode must still be the normalised document (a result must not depend on earlier parses)
    hist = [(t, x) for t, x in zip(trees, jl) if tree_in_domain(t) and tree_stats(t)[0] > 0]
    if not thorough:
        hist = hist[:400]
    hout = ck.impl(["JSONH\t" + x for _, x in hist])
    jstat["history_cases"] = len(hist)
    for (t, x), o in zip(hist, hout):
        v = tree_oracle(t)
        want = "N" if v is None else "V" + enc_str(serde_dump(v))
        dist["JSONH"] = dist.get("JSONH", 0) + 1
        if o != want:
            found = True
            if len(ck.violations) < 5:
                ck.violation({"kind": "second json_parse --collection | json_encode --collection of the same text in one runtime (first result edited "
                                      "in between) differs from the normalised document", "document": tree_text(t), "wire": "JSONH\t" + x,
                              "implementation": o, "implementation_text": show(o), "expected": want, "theorems": JSON_THEOREMS, "seed": ck.seed})
    docs = trees
    # properties format: extracted writer / reader models (CodecProps.v) vs map_to_properties / map_load_properties
    pfound, pevals, pcov = c17_props.run_props(ck, rng, thorough, dist, nontriv)
    found = found or pfound
    ck.coverage.update({
        "evaluations": len(both) + len(texts) + 300 + len(u64s) + len(docs) + len(hist) + pevals,
        "distinct_nontrivial": len(nontriv),
        "rule": "model-vs-implementation on: base64_encode of every byte string of length <= 2 (quick: 1/5 of length 2) + random to 300 bytes; "
                "base64_decode of every string of length <= %d over an 11-character alphabet incl. padding/invalid characters + mutated valid encodings; "
                "bytes_to_string of every 1/2-byte sequence and of boundary-byte sequences to length %d; string_to_bytes of %s scalar values; hex_encode / hex_decode "
                "of boundary and random numbers and malformed numerals. Composite round trips on the implementation with the property as oracle. JSON: implementation == "
                "extracted model == extracted spec per document. Properties: text of map_to_properties == extracted writer (sorted lines), map_load_properties == "
                "extracted reader on the written texts and on a malformed stream, and on the domain `representable` the round trip == the theorem's right-hand side "
                "(exhaustive: one pair with key of length <= 1 and value of length <= 2 over 41 critical characters; every pair of the 128 non-ASCII windows-1252 "
                "characters; every BMP code point alone in thorough). "
                "non-trivial = distinct case whose result is a value (not an error) on a non-trivial input" % (5 if thorough else 4, 4 if thorough else 3, "ALL" if thorough else str(len(scal))),
        "exhaustive": True,
        "exhaustive_part": {"base64_encode_upto_len2": n_enc_exh, "all_scalar_values": thorough},
        "samples": [both[5], both[n_enc_exh + 3], tree_text(docs[9]), tree_text(docs[len(FIXED_TREES) + len(exh) + 3]), {"a b": " x\\y\n\u65e5"}],
        "case_distribution": dist,
        "json": dict(jstat, exhaustive_small_scope=len(exh), exhaustive_small_scope_complete=thorough, fixed=len(FIXED_TREES),
                     random_off_domain_skipped=n_off_gen,
                     compared="implementation == extracted model == extracted normalise == Python oracle, per document"),
        "properties": pcov,
        "not_modelled": ["serde_json text layer (from_str, Value::to_string, Number::to_string, Map = BTreeMap ordering): oracle; the model works on the parsed Value",
                         "HashMap iteration order of a SubState (irrelevant to the output: the encoder's Map is sorted again)",
                         "json_parse / json_encode without --collection (variables form): not part of the theorem; harness case JSONV unused here",
                         "properties: DecodeIter's 64-byte input / output buffers (the reader model decodes the whole text at once), the regex engine (LINE_RE is "
                         "modelled as the scanner it denotes), HashMap iteration order (the list order of the model; the theorem holds for every order), "
                         "write_properties / read_properties (the variable forms; write_properties still trims with str::trim)"],
    })
    ck.report_broken(found)
    ck.assumptions += [
        "the base64 crate's STANDARD engine, String::into_bytes / str::from_utf8, u64 parsing and {:#x} formatting are modelled (not verified); the models are validated against them on every run incl. exhaustive small scopes",
        "JSON: the theorem is about the glue on serde_json's parsed Value (Json.v: create_structure, put_handle, encode_from_state_value, encode_from_state); "
        "serde_json's text layer (parsing, number rendering, string escaping, BTreeMap key order, last-duplicate-key-wins) is an oracle, not modelled",
        "JSON: handle names are random ('handle:' + 20 alphanumerics) in the code and allocated from a counter in the model; freshness of a new handle with respect to "
        "the store and to every string/number/bool leaf of the document is ASSUMED (hypothesis json_dom: no leaf is literally a model handle name; the code re-reads "
        "string values as handles, so a leaf equal to a live handle name would be followed)",
        "JSON: an object is its key/value list in serde_json's Map iteration order with unique keys (hypothesis json_wfb); the check sends the keys already sorted by "
        "their UTF-8 bytes (BTreeMap order) and the text with the keys in a different order; maps are association lists in insertion order in the model",
        "JSON: the handle store is the fresh context's (store_wf: every cell was allocated by put_handle); out-of-fuel of the encoder (= unbounded recursion on a cyclic store) is excluded by C17_json_fuel",
        "properties: the java-properties 2.0.0 crate and encoding_rs' windows-1252 encoder / decoder are modelled (not verified): write_escaped, the EncodingWriter loop "
        "with the Vec<u8> growth policy (capacity 256, tripled when full), NaturalLines, LogicalLines, LINE_RE, unescape, u16::from_str_radix; the models are validated "
        "against the crates on every run (texts byte for byte, reader results incl. error kind and line number, on written and on malformed texts)",
        "properties: map values are StateValue::String (get_as_string of numbers / booleans is their to_string; other kinds are an error), the map handle exists; "
        "the theorem's domain `representable` excludes exactly known finding F18 (unpadded \\u escapes; windows-1252 bytes that are not UTF-8), the truncated-escape "
        "class (an escape cut at the end of the writer's buffer) and the byte-order-mark class (a key whose written bytes start with EF BB BF); off the domain only "
        "model == implementation is compared",
        "JSON numbers are integers or a small pool of decimals whose serde_json rendering is fixed; float formatting is serde_json/ryu's",
    ]


def agree(m, i):
    return m == i
