"""C13 — setting the halt flag stops the run at the next instruction boundary.

Formal side: props/C13.v (RunnerHalt.v over the runner model Runner.v): C13_prefix, C13_boundary,
C13_trace_prefix(_done), C13_terminates, C13_by_command — parametric in the commands and in the
external flag oracle.  Correspondence (Env::new(None, None, Some(flag)), flag owned by the harness):
 (a) a scripted command raises the flag at its k-th invocation, for every boundary k of generated
     programs (straight-line, goto loops, endless programs over cyclic commands, error paths with
     on_error): result, invocation log and returned variables must equal the extracted model's,
     and the halted log must be a prefix of the un-halted log (the theorem, re-checked on outputs);
 (b) the flag is already up at the start: nothing runs;
 (c) a second thread raises it after a random delay (PARTIAL: schedules are the runtime's): the run
     must return what the un-halted run returns, or Ok with a log that is a prefix of the un-halted
     log and the variables of a boundary configuration of the model with that log."""
import itertools
import os
import shutil
import vlib
from props import runner_gen as G

THEOREMS = ["C13_prefix", "C13_trace_prefix", "C13_trace_prefix_done", "C13_boundary", "C13_terminates",
            "C13_by_command", "C13_nested_blind", "C13_nested", "C13_after_instruction"]
FUEL = 400
PROBE = 80          # un-halted steps looked at to find the boundaries of a program
SCRATCH = os.path.join(vlib.ROOT, ".cache", "c13")


def log_entries(f):
    return [] if f == "-" else f.split(";")


def norm_log(entries):
    """log entries with script-file paths (on_error's third argument) replaced: every case has its own file"""
    out = []
    for e in entries:
        p = e.split("|")
        if p[1] != "-":
            p[1] = " ".join("PATH" if (a != "e" and vlib.dec_str(a).startswith(SCRATCH)) else a for a in p[1].split(" "))
        out.append("|".join(p))
    return out


def mark_kth(cmds, log, k):
    """commands in which the k-th (0-based) invocation of the un-halted log raises the flag"""
    name = vlib.dec_str(log[k].split("|")[0])
    j = sum(1 for e in log[:k] if e.split("|")[0] == log[k].split("|")[0])
    cyc, rs = cmds[name]
    if not rs:
        return None
    if j >= len(rs) and not cyc:
        return None                      # that invocation answers "exhausted": nothing to mark
    unrolled = [rs[t % len(rs)] for t in range(j + 1)] if cyc else list(rs)
    unrolled[j] = ("!", unrolled[j])
    c2 = dict(cmds)
    c2[name] = (cyc, unrolled)
    return c2


def small_family():
    shapes = [None, {"out": "x", "cmd": "c0"}, {"label": ":a", "cmd": "c0"}]
    alpha = [("C", "v"), ("C", None), ("L", None, ":a"), ("J", None, 0), ("E", "m1")]
    out = []
    for n in (1, 2, 3):
        for lines in itertools.product(shapes, repeat=n):
            if all(l is None for l in lines):
                continue
            for ln in (1, 2, 3):
                for seq in itertools.product(alpha, repeat=ln):
                    out.append((list(lines), {"c0": (True, list(seq))}))
    return out


def replay(ck, data):
    """vcheck Cxx --replay file: re-run the recorded case on both sides; status 1 if they still disagree"""
    wire = data.get("wire")
    print("script:\n" + str(data.get("script")))
    if not wire:
        print("replay: this file names a broken obligation, not an input; re-run the check itself")
        return 1
    ck.ocaml_build()
    ck.harness_build([ck.prop.lower()])
    if wire.startswith("N\t"):
        # nested-flow case: the expectation (derived from the model's top-level run) is stored in the file
        i = ck.impl([wire])[0]
        f = i.split("\t")
        exp = data.get("expected(status, harness-command log, watched variables, flag)")
        print("expected:       " + str(exp))
        print("implementation: " + i)
        same = len(f) == 7 and exp is not None and [f[0], f[4], f[5], f[6]] == list(exp)
        print("REPLAY: " + ("agree now" if same else "still disagree"))
        return 0 if same else 1
    m, i = ck.model([wire])[0], ck.impl([wire])[0]
    print("model:          " + m)
    print("implementation: " + i)
    same = G.agree(m.split("\t"), i.split("\t")[:6], _cmds_of(wire))
    print("REPLAY: " + ("agree now" if same else "still disagree"))
    return 0 if same else 1


def _cmds_of(wire):
    """known scripted messages of a case line (for the message classification)"""
    f = wire.split("\t")
    cmds = {}
    if f[5] != "-":
        for c in f[5].split(";"):
            n, cyc, rs = c.split("|")
            out = []
            if rs != "-":
                for r in rs.split(","):
                    r = r.lstrip("!")
                    if r[0] in "EK":
                        out.append((r[0], vlib.dec_str(r[1:])))
            cmds[vlib.dec_str(n)] = (cyc == "1", out)
    return cmds


NESTED_WATCH = ["a", "b", "c", "d", "x", "r"]


def nested_programs(rng, thorough):
    """programs over the real SDK whose top-level instructions contain nested flows, and the same programs for
    the extracted model (RunnerNestedInst.v: every call site of a harness command is a scripted base command
    <cmd>_<tag>; a condition function / eval / user alias is an alias-table entry whose body eval_instructions
    runs; `if` answers Continue or a jump past its block)"""
    out = []

    def build(kinds, raiser_at, raiser, env, thread):
        fdefs, main, lines, cmds, aliases = [], [], [], {}, []
        tag = [0]

        def t():
            tag[0] += 1
            return str(tag[0])

        def site(c, tg):
            """base command of one call site"""
            if c == "hlog":
                res = ("C", tg)
            elif c in ("hraise", "hwait"):
                res = ("!", ("C", "true"))
            else:
                res = ("!", ("E", tg))
            cmds["%s_%s" % (c, tg)] = (False, [res])
            return "%s_%s" % (c, tg)

        def alias(body, ovr):
            n = "nest%d" % (len(aliases) + 1)
            aliases.append((n, ovr, body))
            return n

        for j, kd in enumerate(kinds):
            is_r = j == raiser_at
            rc = raiser if is_r else None
            var = "abc"[j % 3]
            if kd in ("plain", "direct"):
                c = rc if (is_r and rc) else "hlog"
                tg = t()
                main.append("%s = %s %s" % (var, c, tg))
                lines.append({"out": var, "cmd": site(c, tg), "args": [tg]})
            elif kd in ("if-true", "if-false"):
                verdict = "true" if kd == "if-true" else "false"
                inner_raiser = rc if rc in ("hraise", "hwait") else None
                n = "cond%d" % (len(aliases) + 1)
                t1, t2, t3 = t(), t(), t()
                fdefs += ["fn " + n, "    d = hlog " + t1]
                body = [{"out": "d", "cmd": site("hlog", t1), "args": [t1]}]
                if inner_raiser:
                    fdefs.append("    %s %s" % (inner_raiser, t2))
                    body.append({"cmd": site(inner_raiser, t2), "args": [t2]})
                fdefs += ["    x = hlog " + t3, "    return " + verdict, "end"]
                body.append({"out": "x", "cmd": site("hlog", t3), "args": [t3]})
                main.append("if " + n)
                at = len(lines)
                lines.append(None)                                   # patched below
                tg = t()
                main.append("    r = hlog " + tg)
                lines.append({"out": "r", "cmd": site("hlog", tg), "args": [tg]})
                main.append("end")
                lines.append(None)                                   # `end`: nothing to run at top level
                ovr = ("C", None) if verdict == "true" else ("J", None, len(lines))
                lines[at] = {"cmd": alias(body, ovr), "args": []}
            elif kd in ("eval", "alias"):
                tg = t()
                c = rc if rc in ("hraise", "hwait") else "hlog"
                main.append(("%s = eval %s %s" if kd == "eval" else "%s = al_%s %s") % (var, c, tg))
                lines.append({"out": var, "cmd": alias([{"cmd": site(c, tg), "args": [tg]}], None), "args": []})
        pre = ["alias al_hlog hlog", "alias al_hraise hraise", "alias al_hwait hwait"]
        text = "\n".join(pre + fdefs + main) + "\n"
        cmds[G.ON_ERROR] = (True, [("C", None)])
        enc_al = "&".join("%s@%s@%s" % (vlib.enc_str(n), "N" if o is None else G.enc_res(o), G.enc_prog(bd)) for n, o, bd in aliases) if aliases else "-"
        model = "\t".join(["M", str(FUEL), G.enc_prog(lines), G.enc_cmds(cmds), enc_al, vlib.enc_list(NESTED_WATCH)])
        impl = "\t".join(["N", env, "Y" if thread else "N", vlib.enc_str(text), vlib.enc_list(NESTED_WATCH)])
        out.append({"text": text, "model": model, "impl": impl, "env": env, "thread": thread,
                    "kinds": ["%s:%s" % (kinds[raiser_at], raiser)]})

    KINDS = ["plain", "if-true", "if-false", "eval", "alias"]
    # every nested kind as the raiser at every position of a 3-instruction frame, both Env modes
    for kd in KINDS + ["direct"]:
        for raiser in ("hraise", "hraisefail"):
            if raiser == "hraisefail" and kd != "direct":
                continue
            for pos in range(3):
                for other in ("plain", "if-true"):
                    kinds = [other] * 3
                    kinds[pos] = kd
                    for env in ("S", "0"):
                        build(kinds, pos, raiser, env, False)
        for raiser in ("hwait", "hwaitfail"):
            if raiser == "hwaitfail" and kd != "direct":
                continue
            for pos in range(3):
                kinds = ["plain"] * 3
                kinds[pos] = kd
                build(kinds, pos, raiser, "S", True)
    for _ in range(1500 if thorough else 250):
        n = rng.randint(2, 6)
        kinds = [rng.choice(KINDS + ["direct"]) for _ in range(n)]
        pos = rng.randrange(n)
        thread = rng.random() < 0.25
        if kinds[pos] == "plain":
            kinds[pos] = "direct"
        if thread:
            raiser = "hwaitfail" if kinds[pos] == "direct" and rng.random() < 0.5 else "hwait"
        else:
            raiser = "hraisefail" if kinds[pos] == "direct" and rng.random() < 0.5 else "hraise"
        build(kinds, pos, raiser, "S" if thread else rng.choice("S0"), thread)
    return out


def run(ck):
    ck.gen_from_source()
    ck.coq_build(["props/C13.vo", "extract/C13_extract.vo"])
    ck.print_assumptions(["DSP.C13"], ["DSP.C13." + t for t in THEOREMS])
    ck.source_tie("runner")
    ck.hygiene()
    ck.ocaml_build()
    ck.harness_build(["c13"])
    model_ok = not any(b.startswith("ocaml") for b in ck.broken) and os.path.exists(
        os.path.join(vlib.ROOT, "ocaml", "bin", "c13_model"))
    os.makedirs(SCRATCH, exist_ok=True)
    thorough = ck.tier == "thorough"
    rng = ck.rng
    found = False
    if not model_ok:
        ck.coverage.update({"evaluations": 0, "distinct_nontrivial": 0, "rule": "model did not build", "samples": []})
        ck.report_broken(False)
        return

    def viol(kind, p, case, m, i, extra=None):
        nonlocal found
        found = True
        if len(ck.violations) >= 5:
            return
        d = {"kind": kind, "script": G.render(p[0], p[3], p[4]),
             "commands": {n: {"cyclic": c, "results": [str(r) for r in rs]} for n, (c, rs) in p[1].items()},
             "initial_variables": p[2], "model": m, "implementation": i,
             "fields": "status, detail, line, source, invocation log (name|args|out|line), variables, flag after the run",
             "wire": case, "theorems": ["C13_prefix", "C13_boundary", "C13_by_command"], "seed": ck.seed,
             "replay_cmd": "printf '%s\\n' | .cache/cargo-target/release/c13   (and | ocaml/bin/c13_model)" % case.replace("\t", "\\t")}
        if extra:
            d.update(extra)
        ck.violation(d)

    # ---- base programs ---------------------------------------------------------------------------
    base = []       # (lines, cmds, vars, blanks, sp, src)
    # corpus: halt on a goto back-edge of an endless loop; halt raised by on_error; halt on the error path
    base.append(([{"label": ":a", "out": "x", "cmd": "c0"}, {"cmd": "c1"}], {"c0": (True, [("C", "v"), ("C", None)]), "c1": (True, [("L", None, ":a")])}, {}, {}, " ", None))
    base.append(([{"out": "x", "cmd": "c0"}, {"out": "y", "cmd": "c0"}, {"cmd": "c1"}], {"c0": (True, [("E", "m1")]), "c1": (True, [("J", None, 0)]), G.ON_ERROR: (True, [("C", None)])}, {"keep": "init"}, {}, " ", None))
    base.append(([{"out": "x", "cmd": "c0"}, {"out": "y", "cmd": "c1"}], {"c0": (False, [("E", "m1")]), "c1": (False, [("C", "v")]), G.ON_ERROR: (True, [("C", "true")])}, {"keep": "init"}, {}, " ", None))
    n_corpus = len(base)
    fam = small_family()
    if not thorough:
        fam = [f for k, f in enumerate(fam) if len(f[0]) < 3 or k % 3 == ck.seed % 3]
    for lines, cmds in fam:
        base.append((lines, cmds, {}, {}, " ", None))
    n_fam = len(fam)
    for k in range(20000 if thorough else 2500):
        lines, cmds, vars_, blanks, sp = G.rand_program(rng, cyclic_p=0.5)
        src = os.path.join(SCRATCH, "p%d.ds" % k) if rng.random() < 0.2 else None
        base.append((lines, cmds, vars_, blanks, sp, src))

    serial = [0]

    def cl(kind, p, halt_at, cmds=None, extra=(), fuel=FUEL):
        # every case gets its own script file: cases run in parallel and the harness removes the file
        serial[0] += 1
        src = None if p[5] is None else "%s.%d.ds" % (p[5], serial[0])
        return "\t".join([G.case_line(kind, src, halt_at, fuel, p[0], cmds if cmds is not None else p[1], p[2],
                                      G.render(p[0], p[3], p[4]))] + list(extra))

    # un-halted behaviour of every base program: final result (if it ends) and the first PROBE steps
    fin = ck.model([cl("P", p, None) for p in base])
    probe_lines = ["\t".join(["I", G.enc_opt(p[5]), str(PROBE), G.enc_prog(p[0]), G.enc_cmds(p[1]), G.enc_vars(p[2])]) for p in base]
    probe = ck.model(probe_lines)
    stats = {"endless_base_programs": 0, "boundaries_tested": 0, "halt_on_on_error_invocation": 0, "preset_flag": 0,
             "default_env_cases": 0, "nested_cases": 0, "nested_thread_cases": 0, "nested_kinds": {}, "thread_cases": 0, "thread_halted_midway": 0, "thread_finished_first": 0, "random_marks": 0,
             "model_outcome": {}}
    cases = []      # (case line, base index, expected-unhalted-log)
    for b, p in enumerate(base):
        f = fin[b].split("\t")
        if f[0] == "FUEL":
            stats["endless_base_programs"] += 1
            pr = probe[b].split("\t")
            ulog = log_entries(pr[4]) if pr[0] == "CFG" else []
        else:
            ulog = log_entries(f[4])
        kmax = 8 if b < n_corpus + n_fam else (30 if thorough else 14)
        for k in range(min(len(ulog), kmax)):
            c2 = mark_kth(p[1], ulog, k)
            if c2 is None:
                continue
            if ulog[k].startswith(vlib.enc_str(G.ON_ERROR) + "|"):
                stats["halt_on_on_error_invocation"] += 1
            cases.append((cl("P", p, None, c2), b, ulog, c2))
            stats["boundaries_tested"] += 1
            # the same boundary with env = None: the command raises the default Env's own flag
            if b < n_corpus + n_fam or (b + k) % 2 == 0:
                cases.append((cl("Q", p, None, c2), b, ulog, c2))
                stats["default_env_cases"] += 1
        if b % 7 == 0:
            cases.append((cl("P", p, 0), b, ulog, p[1]))
            stats["preset_flag"] += 1
    # late boundaries: the flag raised by the k-th invocation of a program that never ends by itself, for k around 2^10 and 2^11
    # (seed C13-w7-m2: after 1024 executed instructions the flag was polled on backward jumps only)
    endless = [b for b in range(len(base)) if fin[b].split("\t")[0] == "FUEL"][:(120 if thorough else 40)]
    late_probe = ck.model(["\t".join(["I", G.enc_opt(base[b][5]), "2200", G.enc_prog(base[b][0]), G.enc_cmds(base[b][1]), G.enc_vars(base[b][2])])
                           for b in endless]) if endless else []
    stats["late_boundaries"] = 0
    for b, pr_ in zip(endless, late_probe):
        pr = pr_.split("\t")
        if pr[0] != "CFG":
            continue
        ulog = log_entries(pr[4])
        for k in (1022, 1023, 1024, 1025, 1026, 1100, 2047, 2050):
            if k < len(ulog):
                c2 = mark_kth(base[b][1], ulog, k)
                if c2 is not None:
                    cases.append((cl("P" if k % 2 else "Q", base[b], None, c2, fuel=3000), b, ulog, c2))
                    stats["late_boundaries"] += 1
    for k in range(4000 if thorough else 800):
        lines, cmds, vars_, blanks, sp = G.rand_program(rng, allow_halt=True, cyclic_p=0.4)
        p = (lines, cmds, vars_, blanks, sp, None)
        base.append(p)
        cases.append((cl("P" if k % 3 else "Q", p, None), len(base) - 1, None, cmds))
        stats["random_marks"] += 1
        if k % 3 == 0:
            stats["default_env_cases"] += 1

    c_lines = [c[0] for c in cases]
    m_out = ck.model(c_lines)
    send = [k for k, m in enumerate(m_out) if not m.startswith("FUEL")]
    i_out = dict(zip(send, ck.impl([c_lines[k] for k in send])))
    nontriv = set()
    for k in send:
        case, b, ulog, cmds = cases[k]
        p = base[b]
        m = m_out[k].split("\t")
        i = i_out[k].split("\t")
        key = m[0] + ":" + m[1].split(" ")[0]
        stats["model_outcome"][key] = stats["model_outcome"].get(key, 0) + 1
        ok = G.agree(m, i[:6], cmds) and len(i) == 7
        if ok and m[0] == "OK" and m[1] == "HALT" and i[6] != ("-" if case.startswith("Q") else "T"):
            ok = False
        if not ok:
            viol("model (halt flag raised by a command / preset%s) vs implementation" % (", run with env = None" if case.startswith("Q") else ""),
                 (p[0], cmds, p[2], p[3], p[4], p[5]), case, m_out[k], i_out[k])
            continue
        if m[0] == "OK" and m[1] == "HALT":
            hl = log_entries(m[4])
            if len(hl) >= 2:
                nontriv.add("\t".join(case.split("\t")[4:7]))
            if ulog is not None and norm_log(hl) != norm_log(ulog[:len(hl)]):
                viol("theorem sanity: halted log is not a prefix of the un-halted log (extraction or driver error)",
                     (p[0], cmds, p[2], p[3], p[4], p[5]), case, m_out[k], "un-halted log: " + ";".join(ulog))

    # ---- (d) nested flows with the real SDK ----------------------------------------------------------
    n_cases = nested_programs(rng, thorough)
    n_model = ck.model([c["model"] for c in n_cases])
    n_impl = ck.impl([c["impl"] for c in n_cases], timeout=900)
    for c, m, i in zip(n_cases, n_model, n_impl):
        stats["nested_thread_cases" if c["thread"] else "nested_cases"] += 1
        for kd in c["kinds"]:
            stats["nested_kinds"][kd] = stats["nested_kinds"].get(kd, 0) + 1
        mf, f = m.split("\t"), i.split("\t")
        exp = None
        if len(mf) == 6 and mf[0] == "OK":
            # the model's base commands are named <harness command>_<tag>: one per call site
            elog = ";".join("%s|%s" % (vlib.enc_str(vlib.dec_str(e.split("|")[0]).rsplit("_", 1)[0]), e.split("|")[1]) for e in log_entries(mf[4])) or "-"
            exp = ("OK", elog, mf[5], "-" if c["env"] == "0" else ("T" if mf[1] == "HALT" else "F"))
        got = (f[0], f[4], f[5], f[6]) if len(f) == 7 else None
        if exp is None or got != exp:
            found = True
            if len(ck.violations) < 5:
                ck.violation({
                    "kind": "nested flow (condition function / eval / alias / failing command with the SDK's on_error) and the halt flag: the "
                            "in-flight top-level instruction must complete, no further top-level instruction may start",
                    "script": c["text"], "env": "Some(flag)" if c["env"] == "S" else "None (default Env)", "second_thread": c["thread"],
                    "expected(status, harness-command log, watched variables, flag)": exp, "implementation": i,
                    "model(status, reason, -, -, base-command log, watched variables)": m,
                    "wire": c["impl"], "wire_model": c["model"], "theorems": ["C13_prefix", "C13_boundary", "C13_by_command"], "seed": ck.seed,
                    "replay_cmd": "printf '%s\\n' | .cache/cargo-target/release/c13" % c["impl"].replace("\t", "\\t")})
        elif len(log_entries(f[4])) >= 2:
            nontriv.add("N\t" + c["impl"])

    # ---- (b') the flag is raised by a fire-and-forget thread WHILE THE SCRIPT IS STILL BEING LOADED ---------------------
    # (run_script_file on a named pipe: the raiser lets go of its handle right after raising; the Env holds the only other
    # handle).  The flag is up at the first poll, so by C13_prefix with k = 0 the run returns Ok before any instruction.
    wdir = os.path.join(vlib.CACHE, "c13", "w%d" % os.getpid())
    w_texts = ["hlog a\nhlog b\nx = hlog c\n", "x = hlog 1\n", "while true\nhlog loop\nend\n", "a = set 1\nhlog ${a}\n",
               "fn f\nhlog in\nend\nf\nhlog after\n"] * (4 if thorough else 1)
    w_lines = ["W\t%s\t%s\t%s" % (vlib.enc_str(os.path.join(wdir, "s%d.fifo" % k)), vlib.enc_str(t), vlib.enc_list(NESTED_WATCH))
               for k, t in enumerate(w_texts)]
    w_out = ck.impl(w_lines, timeout=120)
    stats["watchdog_during_load_cases"] = len(w_lines)
    for line, t, o in zip(w_lines, w_texts, w_out):
        if o == "NOFIFO":
            stats["watchdog_during_load_cases"] -= 1
            continue
        f = o.split("\t")
        ok = len(f) == 3 and f[0] == "OK" and f[1] == "-" and all(x.endswith("=N") for x in f[2].split(";"))
        if not ok:
            found = True
            if len(ck.violations) < 5:
                ck.violation({"kind": "the flag was raised (by a thread that then dropped its handle) while the script file was still "
                                      "being read: the run must return Ok with no instruction started (C13_prefix with k = 0)",
                              "script": t, "implementation": o, "expected": "OK, empty invocation log, no variable defined",
                              "wire": line, "theorems": ["C13_prefix", "C13_boundary"], "seed": ck.seed})
    shutil.rmtree(wdir, ignore_errors=True)

    # ---- (c) second thread ---------------------------------------------------------------------------
    t_cases = []
    n_thread = 5000 if thorough else 600
    pool = [b for b in range(n_corpus + n_fam, len(base)) if len(base[b][0]) >= 2]
    endless = [b for b in pool if b < len(fin) and fin[b].startswith("FUEL")]
    for k in range(n_thread):
        b = rng.choice(endless) if endless and rng.random() < 0.6 else rng.choice(pool)
        p = base[b]
        if any(r[0] == "!" for _, (_, rs) in p[1].items() for r in rs):
            continue
        delay = rng.choice([0, 0, 50, 200, 500, 1000, 2000, rng.randint(0, 3000)])
        t_cases.append((cl("T", p, delay, None, ("30",)), b))
    t_out = ck.impl([c[0] for c in t_cases], timeout=600) if t_cases else []
    # candidates from the model for the observed log length
    q = []
    for (case, b), o in zip(t_cases, t_out):
        f = o.split("\t")
        n = len(log_entries(f[4])) if len(f) >= 6 else 0
        p = base[b]
        q.append("\t".join(["F", case.split("\t")[1], str(n), "4000", G.enc_prog(p[0]), G.enc_cmds(p[1]), G.enc_vars(p[2])]))
    cand = ck.model(q) if q else []
    def unhalted(case):
        f = case.split("\t")
        f[0], f[2] = "P", "N"
        return "\t".join(f[:8])
    unh = ck.model([unhalted(c) for (c, _) in t_cases]) if t_cases else []
    for (case, b), o, c, u in zip(t_cases, t_out, cand, unh):
        p = base[b]
        stats["thread_cases"] += 1
        f = o.split("\t")
        uf = u.split("\t")
        if len(f) == 7 and uf[0] != "FUEL" and G.agree(uf, f[:6], p[1]):
            stats["thread_finished_first"] += 1
            continue
        good = False
        if len(f) == 7 and f[0] == "OK" and f[6] == "T" and c.startswith("CAND"):
            cf = c.split("\t")
            if cf[1] == f[4] and G.sort_vars(f[5]) in [G.sort_vars(v) for v in cf[2].split("&")]:
                good = True
        if good:
            stats["thread_halted_midway"] += 1
            if len(log_entries(f[4])) >= 2:
                nontriv.add("T\t" + "\t".join(case.split("\t")[4:7]) + "\t" + str(len(log_entries(f[4]))))
        else:
            viol("second thread raises the flag: the result is neither the un-halted result nor a boundary configuration of the model",
                 p, case, "boundary candidates for that log length: " + c + " ; un-halted: " + u, o)

    ck.coverage.update({
        "evaluations": len(send) + len(t_cases) + len(n_cases),
        "distinct_nontrivial": len(nontriv),
        "rule": "flag raised by the k-th command invocation for every k < 8 of every program of 1-3 lines over 3 shapes with one cyclic "
                "command of 1-3 results over 5 results (%d base programs%s), for every k < %d of %d random programs of <= 14 lines "
                "(50%% cyclic commands, on_error handlers), random '!' marks, flag preset before the run; every command-raised case of the small family and half of the others also with env = None (the runner's default Env, flag raised through context.env.halt); nested flows with the real SDK (a function used as an `if` condition, eval, user aliases, failing commands reported to the SDK's on_error) raising the flag from inside or waiting for a second thread, both Env modes; thread mode: flag raised "
                "after 0-3000 us while each invocation pauses 30 us; non-trivial = distinct case whose halted run made >= 2 invocations "
                "before stopping" % (n_fam, "" if thorough else ", 3-line ones sampled by seed", 30 if thorough else 14, 20000 if thorough else 2500),
        "exhaustive": True,
        "exhaustive_part": {"base_programs": n_fam, "boundaries_each": 8},
        "samples": [G.render(base[0][0]), G.render(base[n_corpus + n_fam // 2][0]), G.render(*[base[-1][j] for j in (0, 3, 4)])],
        "distribution": stats,
        "partial": "thread schedules: SeqCst visibility between threads is the runtime's; the second-thread mode checks only that the "
                   "result is a boundary configuration of the un-halted run (or the un-halted result)",
    })
    ck.report_broken(found)
    ck.assumptions += [
        "the flag is modelled as a boolean of the world or'ed with an oracle on poll numbers; Arc<AtomicBool> SeqCst loads/stores are not modelled",
        "argument binding is the identity on the generated arguments (no '$', '%', backslash)",
        "while / for-in loops of the SDK are ordinary commands returning GoTo results: the runner-level statement covers them; the correspondence run uses goto loops over scripted commands",
        "a command that clears the flag again is allowed by the model (no monotonicity is assumed); the harness commands only raise it",
    ]
