"""C16 — text, comparison and arithmetic commands compute the documented function.

Formal side: props/C16.v (Utf8.v byte offsets, Strings.v model M of each command's `run` + the
executable plain specifications S, StringsProof.v).  Correspondence: the extracted model and the
real commands (each run through a one-line script, arguments passed verbatim in variables) on
  (a) the corpus (F2 witnesses), (b) every string of length <= 3 (4 in thorough) over {a b é 😀 space}
  with every index pair in [-2, bytes+2] for substring and every (haystack, needle) pair for the
  search / split / replace family, (c) arity and numeric-argument malformations, (d) random Unicode,
  (e) range around 0 and around the i64 limits (never more than 10^5 elements: F13 is not this check),
  (f) decimal literals of <= 15 significant digits for less_than / greater_than, (g) integer expression
  trees for calc, (h) ASCII strings for uppercase / lowercase, (i) the White_Space table for all
  scalar values.
Besides model-vs-implementation, the property itself is evaluated on the implementation's own
outputs (substring(s, 0, indexof(s, t)) ++ t is a prefix of s through a second pass; the split pieces
joined give s back) and a third, independent Python oracle (bytes of the UTF-8 encoding) is compared
for the commands where Python's str/bytes functions are the plain operation."""
import itertools
import os
import re
import vlib
from vlib import enc_str, enc_list, dec_list, dec_str

THEOREMS = [
    "C16_units", "C16_units_cmd", "C16_units_last", "C16_units_cut", "C16_substr_length", "C16_split",
    "C16_split_cmd", "C16_split_pieces", "C16_split_rec", "C16_substr", "C16_substr_total", "C16_substr1",
    "C16_substr2", "C16_substr_cmd_nopanic", "C16_substr_cmd3", "C16_substr_cmd", "C16_range",
    "C16_range_interval", "C16_range_errors", "C16_parse_show", "C16_parse_range", "C16_parse_grammar",
    "C16_length", "C16_length_bounds", "C16_indexof", "C16_indexof_none", "C16_last_indexof",
    "C16_last_indexof_none", "C16_contains", "C16_starts_with", "C16_ends_with", "C16_equals",
    "C16_is_empty", "C16_concat", "C16_replace", "C16_replace_absent", "C16_replace_same", "C16_trim",
    "C16_trim_start", "C16_trim_end", "C16_compare_partial", "C16_compare_errors", "C16_calc_partial",
    "C16_spec_find", "C16_spec_rfind", "C16_spec_slice", "C16_slice", "C16_never_ood", "C16_nonvacuous",
]

ALPHA = ["a", "b", "é", "😀", " "]
I64_MAX = 2 ** 63 - 1
I64_MIN = -2 ** 63
NUMERIC_ODD = ["+1", "-0", "+0", "007", "-007", "1.0", "", " 1", "1 ", "9223372036854775807", "9223372036854775808",
               "-9223372036854775808", "-9223372036854775809", "99999999999999999999999", "-99999999999999999999999",
               "abc", "١", "1e3", "0x1", "--1", "+-1", "+", "-", "1_0", "１", "2", "-2", "0"]
WS_ALPHA = ["a", " ", "\t", "\n", "\u00a0", "\u2003", "\u200b", "\u3000", "\u0085", "\u180e", "\ufeff", "\r"]
PAIR_CMDS = ["indexof", "last_indexof", "contains", "starts_with", "ends_with", "equals", "split"]
ALL_CMDS = ["length", "indexof", "last_indexof", "substring", "contains", "starts_with", "ends_with", "equals",
            "is_empty", "concat", "replace", "split", "trim", "trim_start", "trim_end", "range", "uppercase",
            "lowercase", "less_than", "greater_than"]
WS_CHARS = None  # filled from the model


def strings_upto(alpha, n):
    out = []
    for k in range(n + 1):
        out.extend("".join(t) for t in itertools.product(alpha, repeat=k))
    return out


def blen(s):
    return len(s.encode("utf8"))


def py_parse_int(s):
    """Python reading of str::parse::<i64>: only used to keep huge ranges away from the implementation"""
    if re.fullmatch(r"[+-]?[0-9]+", s, re.A) and all(c in "+-0123456789" for c in s):
        v = int(s)
        if I64_MIN <= v <= I64_MAX:
            return v
    return None


def rand_scalar(rng):
    r = rng.random()
    if r < 0.35:
        return chr(rng.randint(0x20, 0x7e))
    if r < 0.45:
        return rng.choice(WS_ALPHA)
    if r < 0.60:
        return chr(rng.randint(0x80, 0x7ff))
    if r < 0.80:
        c = rng.randint(0x800, 0xffff)
        while 0xd800 <= c <= 0xdfff:
            c = rng.randint(0x800, 0xffff)
        return chr(c)
    if r < 0.97:
        return chr(rng.randint(0x10000, 0x10ffff))
    return chr(rng.choice([0, 1, 0x7f, 0x80, 0x7ff, 0x800, 0xffff, 0x10000, 0x10ffff, 0xd7ff, 0xe000, 0x22, 0x23, 0x24, 0x25, 0x5c, 0x7b, 0x7d]))


def rand_str(rng, maxlen=12):
    return "".join(rand_scalar(rng) for _ in range(rng.randint(0, maxlen)))


CASE_SAFE = set("abcdefghijklmnopqrstuvwxyzABCDEFGHIJKLMNOPQRSTUVWXYZ0123456789 ßﬁﬂŉǰΐİΣσςΟΔΑΒοδαβéàñüÉÀÑÜжЖдДS")

# ---- oracle in plain Python (third opinion; byte offsets of the UTF-8 encoding) -------------------
def py_oracle(cmd, args):
    """returns the expected wire result or None when Python has no plain counterpart"""
    def v(x):
        return "V" + enc_str(x)

    def b(x):
        return v("true" if x else "false")
    try:
        if cmd == "length" and args:
            return v(str(blen(args[0])))
        if cmd in ("indexof", "last_indexof") and len(args) >= 2:
            s, t = args[0].encode("utf8"), args[1].encode("utf8")
            i = s.find(t) if cmd == "indexof" else s.rfind(t)
            return "N" if i < 0 else v(str(i))
        if cmd == "contains" and len(args) >= 2:
            return b(args[1] in args[0])
        if cmd == "starts_with" and len(args) >= 2:
            return b(args[0].startswith(args[1]))
        if cmd == "ends_with" and len(args) >= 2:
            return b(args[0].endswith(args[1]))
        if cmd == "equals" and len(args) >= 2:
            return b(args[0] == args[1])
        if cmd == "split" and len(args) >= 2 and args[1] != "":
            return "L" + enc_list(args[0].split(args[1]))
        if cmd == "replace" and len(args) >= 3:
            return v(args[0].replace(args[1], args[2]))
        if cmd == "concat":
            return v("".join(args))
        if cmd == "substring" and len(args) >= 3:
            a, e = py_parse_int(args[1]), py_parse_int(args[2])
            if a is None or e is None:
                return None
            raw = args[0].encode("utf8")
            if not (0 <= a <= e <= len(raw) - 1):
                return "E"
            try:
                raw[:a].decode("utf8")
                return v(raw[a:e].decode("utf8")) if _boundary(raw, e) else "E"
            except UnicodeDecodeError:
                return "E"
    except (UnicodeError, ValueError):
        return None
    return None


def same(m, i):
    """model result vs implementation result; an error whose message text is unknown to the harness
    (E?) matches any error kind: message texts are not part of the property"""
    return m == i or (i == "E?" and m.startswith("E"))


def agree(m, i):
    """used by `vcheck C16 --replay`: outside the modelled domain only a crash is a disagreement"""
    if m == "OOD":
        return not (i == "PANIC" or i.startswith("X") or i.startswith("DIED"))
    return same(m, i)


def _boundary(raw, k):
    return k == len(raw) or k == 0 or (raw[k] & 0xC0) != 0x80


# ---- decimal literals ------------------------------------------------------------------------------
def rand_decimal(rng):
    nd = rng.randint(1, 15)
    digits = str(rng.randint(1, 9)) + "".join(rng.choice("0123456789") for _ in range(nd - 1))
    if rng.random() < 0.1:
        digits = "0"
    form = rng.random()
    point = rng.randint(0, len(digits))
    if form < 0.35:
        body = digits
    elif form < 0.8:
        body = digits[:point] + "." + digits[point:]
    else:
        body = "0" * rng.randint(0, 3) + digits[:point] + "." + digits[point:] + "0" * rng.randint(0, 3)
    if body == ".":
        body = "0."
    if rng.random() < 0.4:
        body += rng.choice("eE") + rng.choice(["", "+", "-"]) + str(rng.randint(0, 40 if rng.random() < 0.8 else 320))
    return rng.choice(["", "", "-", "+"]) + body


def same_value_variants(rng, lit):
    """other spellings of (almost) the same number"""
    out = [lit, lit + "e0", lit + "E+00"]
    if "e" not in lit.lower():
        if "." in lit:
            out += [lit + "0", lit + "000"]
        else:
            out += [lit + ".", lit + ".0", lit + "e-0"]
            if lit not in ("", "+", "-"):
                out.append(lit + "0e-1")
    return out


# ---- calc expression trees -------------------------------------------------------------------------
def rand_expr(rng, depth):
    """tree as nested tuples: ('l', n) | ('n', e) | (op, a, b)"""
    r = rng.random()
    if depth == 0 or r < 0.25:
        q = rng.random()
        if q < 0.7:
            return ("l", rng.randint(0, 20))
        if q < 0.85:
            return ("l", rng.choice([2 ** 31 - 1, 2 ** 31, 2 ** 32, 10 ** 9, 3037000499, 3037000500, 94906265, 94906266, 2 ** 53 - 1, 2 ** 53, 2 ** 26]))
        if q < 0.95:
            return ("l", rng.choice([2 ** 62, 2 ** 63 - 1, 2 ** 63 - 2, 2 ** 53 + 1, 10 ** 18, 4611686018427387904]))
        return ("l", rng.choice([2 ** 63, 2 ** 64, 10 ** 19]))
    if r < 0.38:
        return ("n", rand_expr(rng, depth - 1))
    return (rng.choice("+-*/%++--**"), rand_expr(rng, depth - 1), rand_expr(rng, depth - 1))


PREC = {"+": 1, "-": 1, "*": 2, "/": 2, "%": 2}


def expr_prefix(e):
    if e[0] == "l":
        return "l%d" % e[1]
    if e[0] == "n":
        return "n " + expr_prefix(e[1])
    return "%s %s %s" % (e[0], expr_prefix(e[1]), expr_prefix(e[2]))


def expr_tokens(rng, e, extra=0.15):
    """token list of the ordinary infix spelling (left-associative, * / % above + -, unary minus
    tightest); redundant parentheses with probability `extra`"""
    def paren(t):
        return ["("] + t + [")"]

    def go(e):
        if e[0] == "l":
            return [str(e[1])], 4
        if e[0] == "n":
            t, p = go(e[1])
            if p < 4:
                t = paren(t)
            return ["-"] + t, 3
        op = e[0]
        lt, lp = go(e[1])
        rt, rp = go(e[2])
        if lp < PREC[op] or (lp == 3 and rng.random() < 0.5) or rng.random() < extra:
            lt = paren(lt)
        if rp <= PREC[op] or (rp == 3 and rng.random() < 0.5) or rng.random() < extra:
            rt = paren(rt)
        return lt + [op] + rt, PREC[op]
    return go(e)[0]


# ----------------------------------------------------------------------------------------------------
def run(ck):
    global WS_CHARS
    ck.gen_from_source()
    ok, _ = ck.coq_build(["props/C16.vo", "extract/C16_extract.vo"])
    ck.print_assumptions(["DSP.C16"], ["DSP.C16." + t for t in THEOREMS])
    ck.source_tie("strings")
    ck.hygiene()
    ck.ocaml_build()
    ck.harness_build(["c16"])
    model_ok = not any(b.startswith("ocaml") for b in ck.broken) and os.path.exists(
        os.path.join(vlib.ROOT, "ocaml", "bin", "c16_model"))
    thorough = ck.tier == "thorough"
    rng = ck.rng
    found = False
    if not model_ok:
        ck.coverage.update({"evaluations": 0, "distinct_nontrivial": 0, "rule": "model did not build", "samples": []})
        ck.report_broken(found)
        return

    cases = []      # (cmd, args, group)
    seen = set()

    def add(cmd, args, group):
        key = (cmd, tuple(args))
        if key in seen:
            return
        seen.add(key)
        cases.append((cmd, list(args), group))

    # (a) corpus: witnesses of past findings first
    add("substring", ["héllo", "0", "2"], "corpus")     # F2: index inside a multi-byte character
    add("substring", ["hello", "-1", "2"], "corpus")    # F2: negative start, 3-argument form
    cdir = os.path.join(vlib.ROOT, "corpus", "C16")
    if os.path.isdir(cdir):
        for fn in sorted(os.listdir(cdir)):
            for line in open(os.path.join(cdir, fn), encoding="utf8"):
                f = line.rstrip("\n").split("\t")
                if len(f) == 3 and f[0] == "R":
                    add(f[1], dec_list(f[2]), "corpus")

    # (b) exhaustive small scope
    n_s = 4 if thorough else 3
    n_t = 3 if thorough else 2
    S = strings_upto(ALPHA, n_s)
    T = strings_upto(ALPHA, n_t)
    n0 = len(cases)
    for s in S:
        bl = blen(s)
        add("substring", [s], "substring-exh")
        for a in range(-bl - 2, bl + 3):
            add("substring", [s, str(a)], "substring-exh")
        for a in range(-2, bl + 3):
            for b in range(-2, bl + 3):
                add("substring", [s, str(a), str(b)], "substring-exh")
    for s in S:
        for cmd in ("length", "is_empty", "trim", "trim_start", "trim_end", "uppercase", "lowercase"):
            add(cmd, [s], "single-exh")
        for t in T:
            for cmd in PAIR_CMDS:
                add(cmd, [s, t], "pair-exh")
    if thorough:
        # one size up for the search family: every text of length 5 against every needle of length <= 2
        for s in ("".join(t) for t in itertools.product(ALPHA, repeat=5)):
            for t in strings_upto(ALPHA, 2):
                for cmd in PAIR_CMDS:
                    add(cmd, [s, t], "pair-exh")
    # needles longer than haystacks
    for s in strings_upto(ALPHA, 2):
        for t in strings_upto(ALPHA, 3):
            for cmd in PAIR_CMDS:
                add(cmd, [s, t], "pair-exh")
    for s in strings_upto(ALPHA, 3):
        for f in strings_upto(ALPHA, 2):
            for t in ("", "x", "é", "aa", f + f):
                add("replace", [s, f, t], "replace-exh")
    for s in strings_upto(WS_ALPHA, 4 if thorough else 3):
        for cmd in ("trim", "trim_start", "trim_end"):
            add(cmd, [s], "trim-exh")
    for a in range(-4, 6):
        for b in range(-4, 6):
            add("range", [str(a), str(b)], "range-exh")
    # overlapping / repeated occurrences: every text of length <= 7 (6 in quick) over {a, b} against every pattern of length <= 3
    AB = strings_upto(["a", "b"], 7 if thorough else 6)
    for s in AB:
        for t in strings_upto(["a", "b"], 3):
            for cmd in ("indexof", "last_indexof", "split"):
                add(cmd, [s, t], "overlap-exh")
            add("replace", [s, t, "é"], "overlap-exh")
    # letter case and look-alikes must not be identified by any of the tests / searches
    CASEW = ["abc", "aBc", "ABC", "Abc", "xabcx", "xABCx", "\u00e9", "\u00c9", "e\u0301", "\u00df", "SS", "ss", "i", "I", "\u0130",
             "k", "K", "\u212a", "\u01c6", "\u01c5", "a", "A", "\uff41"]
    for x in CASEW:
        for y in CASEW:
            for cmd in PAIR_CMDS:
                add(cmd, [x, y], "case-variants")
            add("replace", [x, y, "_"], "case-variants")
    n_exh = len(cases) - n0

    # (c) arity and numeric malformations
    small = ["", "a", "ab", "é😀", "1", "0", "-1", "x y"]
    for cmd in ALL_CMDS:
        for k in range(0, 5):
            for _ in range(6):
                add(cmd, [rng.choice(small) for _ in range(k)], "arity")
    for s in ["", "a", "héllo", "ab😀"]:
        for x in NUMERIC_ODD:
            add("substring", [s, x], "numeric")
            for y in ["0", "1", "2", x]:
                add("substring", [s, x, y], "numeric")
                add("substring", [s, y, x], "numeric")
    for x in NUMERIC_ODD + [str(I64_MAX - 1), str(I64_MIN + 1), "5", "-5"]:
        for y in NUMERIC_ODD + [str(I64_MAX - 1), str(I64_MIN + 1), "5", "-5"]:
            a, b = py_parse_int(x), py_parse_int(y)
            if a is not None and b is not None and b - a > 100000:
                continue        # F13 (huge allocation) is outside this check
            add("range", [x, y], "numeric")
    for _ in range(300):
        a = rng.randint(-10 ** 6, 10 ** 6) if rng.random() < 0.7 else rng.choice([I64_MAX, I64_MIN, I64_MAX - 50, I64_MIN + 50, 2 ** 32, -2 ** 31])
        d = rng.randint(-3, 60)
        b = a + d
        fmt = rng.choice(["%d", "+%d", "%d", "0%d"])
        sb = str(b) if b < 0 or rng.random() < 0.5 else (fmt % b)
        add("range", [str(a), sb], "range-rand")

    # (d) random Unicode
    n_rand = 30000 if thorough else 6000
    for _ in range(n_rand):
        s = rand_str(rng)
        r = rng.random()
        if r < 0.5 and s:
            i = rng.randint(0, len(s))
            j = rng.randint(i, min(len(s), i + 3))
            t = s[i:j]
        elif r < 0.6:
            t = s + rand_scalar(rng)
        else:
            t = rand_str(rng, 3)
        cmd = rng.choice(PAIR_CMDS + ["replace", "substring", "substring", "length", "trim", "trim_start", "trim_end", "concat"])
        if cmd == "replace":
            add(cmd, [s, t, rand_str(rng, 3)], "random")
        elif cmd == "substring":
            bl = blen(s)
            if rng.random() < 0.7 and s:
                i = rng.randint(0, len(s))
                j = rng.randint(i, len(s))
                a, b = blen(s[:i]), blen(s[:j])
                if rng.random() < 0.3:
                    b -= 1
            else:
                a, b = rng.randint(-2, bl + 2), rng.randint(-2, bl + 2)
            if rng.random() < 0.25:
                add(cmd, [s, str(rng.choice([a, -a, b - bl]))], "random")
            else:
                add(cmd, [s, str(a), str(b)], "random")
        elif cmd in ("length", "trim", "trim_start", "trim_end"):
            pad = "".join(rng.choice(WS_ALPHA[1:]) for _ in range(rng.randint(0, 3)))
            add(cmd, [pad + s + pad[::-1] if rng.random() < 0.7 else s], "random")
        elif cmd == "concat":
            add(cmd, [rand_str(rng, 4) for _ in range(rng.randint(0, 5))], "random")
        else:
            add(cmd, [s, t], "random")
    for _ in range(1500 if thorough else 400):
        s = "".join(chr(rng.randint(0, 127)) for _ in range(rng.randint(0, 10)))
        add("uppercase", [s], "case-ascii")
        add("lowercase", [s], "case-ascii")
    add("uppercase", ["".join(chr(c) for c in range(128))], "case-ascii")
    add("lowercase", ["".join(chr(c) for c in range(128))], "case-ascii")
    add("uppercase", ["straße ǆ"], "case-unicode")     # outside the model's domain: counted, not compared
    add("lowercase", ["İSTANBUL Σ"], "case-unicode")
    # one-to-many and context-dependent case mappings (stable since Unicode 3-8): compared with Python's full mapping
    for w in ["straße", "ß", "ﬁn", "ﬂag ﬁx", "ŉ", "ǰ", "ΐ", "groß", "éàñü жд", "Maße und ﬁsche"]:
        add("uppercase", [w], "case-special")
    for w in ["İ", "İSTANBUL", "ΟΔΟΣ", "ΣΑΣ", "Σ", "ΑΣ ΒΣ", "ÉÀÑÜ ЖД", "STRASSE", "ΟΔΟΣ ΟΔΟΣ"]:
        add("lowercase", [w], "case-special")

    # (f) decimal comparison
    bad_num = ["", "abc", "1_0", " 1", "1 ", "0x10", ".", "e5", "1e", "1e+", "--1", "+-1", "1.2.3", "١", "+", "-", "1e5x",
               ".e5", "1.e5", "1.", ".5", "-.5e-3", "in", "infinit", "nan", "NaN", "inf", "-Infinity", "+INF", "1e400",
               "1e-400", "0e999999999999999999999", "123456789012345678", "0.1234567890123456", "00012", "1E2", "100"]
    for x in bad_num:
        for y in bad_num:
            add(rng.choice(["less_than", "greater_than"]), [x, y], "compare-odd")
    for _ in range(20000 if thorough else 4000):
        x = rand_decimal(rng)
        r = rng.random()
        if r < 0.3:
            y = rng.choice(same_value_variants(rng, x))
        elif r < 0.5:
            # neighbour in the last significant digit
            m = re.search(r"[0-9](?=[^0-9]*$|[eE])", x)
            y = x
            ds = [k for k, c in enumerate(x.split("e")[0].split("E")[0]) if c.isdigit()]
            if ds:
                k = rng.choice(ds)
                y = x[:k] + str((int(x[k]) + rng.choice([1, 9])) % 10) + x[k + 1:]
        else:
            y = rand_decimal(rng)
        add("less_than", [x, y], "compare")
        add("greater_than", [x, y], "compare")

    r_lines = ["R\t%s\t%s" % (c, enc_list(a)) for (c, a, _) in cases]

    # (g) calc trees
    trees = [rand_expr(rng, rng.randint(0, 4)) for _ in range(12000 if thorough else 3000)]
    k_lines = ["K\t" + expr_prefix(e) for e in trees]
    calc_args = []
    for e in trees:
        toks = expr_tokens(rng, e)
        r = rng.random()
        if r < 0.6:
            calc_args.append(toks)
        elif r < 0.8:
            calc_args.append([" ".join(toks)])
        else:
            calc_args.append(["".join(toks).replace("--", "- -")])
    calc_lines = ["R\tcalc\t" + enc_list(a) for a in calc_args]

    # ---- run both sides ----------------------------------------------------------------------------
    m_r = ck.model(r_lines)
    i_r = ck.impl(r_lines)
    m_k = ck.model(k_lines)
    i_k = ck.impl(calc_lines + ["R\tcalc\t-"])
    ws_m = ck.model(["WS"])[0]
    ws_i = ck.impl(["WS"])[0]
    ck.obligations.append("White_Space table = char::is_whitespace (all scalar values, exhaustive)")
    if ws_m == ws_i and ws_m not in ("", "BADLINE"):
        ck.discharged.append("White_Space table")
    else:
        ck.broken.append("White_Space table differs from char::is_whitespace")

    def replay_cmd(line):
        return "printf '%s\\n' | .cache/cargo-target/release/c16   # model: | ocaml/bin/c16_model" % line.replace("\t", "\\t")

    def report(kind, cmd, args, line, m, i, theorems, extra=None):
        nonlocal found
        found = True
        if len(ck.violations) >= 5:
            return
        d = {"kind": kind, "command": cmd, "arguments": args, "wire": line, "model": m, "implementation": i,
             "theorems": theorems, "seed": ck.seed, "replay_cmd": replay_cmd(line)}
        if extra:
            d.update(extra)
        ck.violation(d)

    THM = {"substring": ["C16_substr", "C16_substr_total", "C16_substr_cmd_nopanic"], "indexof": ["C16_indexof", "C16_units"],
           "last_indexof": ["C16_last_indexof"], "length": ["C16_length"], "split": ["C16_split", "C16_split_pieces"],
           "replace": ["C16_replace"], "range": ["C16_range", "C16_range_interval"], "contains": ["C16_contains"],
           "starts_with": ["C16_starts_with"], "ends_with": ["C16_ends_with"], "equals": ["C16_equals"],
           "is_empty": ["C16_is_empty"], "concat": ["C16_concat"], "trim": ["C16_trim"], "trim_start": ["C16_trim_start"],
           "trim_end": ["C16_trim_end"]}
    dist = {}
    groups = {}
    nontriv = set()
    ood = 0
    unconstrained = 0
    units_second = []     # (s, t, i) for the second pass of the units property
    for k, ((cmd, args, grp), m, i) in enumerate(zip(cases, m_r, i_r)):
        groups[grp] = groups.get(grp, 0) + 1
        key = cmd + ":" + (m[:1] if m[:1] in "VNL" else m if m.startswith("E") else m)
        dist[key] = dist.get(key, 0) + 1
        if m == "OOD":
            ood += 1
            if i == "PANIC" or i.startswith("X") or i.startswith("DIED"):
                report("implementation failed outside the modelled domain", cmd, args, r_lines[k], m, i, ["C16_never_ood"])
            elif cmd in ("uppercase", "lowercase") and args and all(c in CASE_SAFE for c in args[0]):
                # outside the ASCII model, but inside the set of characters whose full case mapping (incl. the one-to-many
                # SpecialCasing entries and final sigma) has been stable across Unicode versions: Python's str.upper / lower
                # is the plain string operation the property names
                want = "V" + enc_str(args[0].upper() if cmd == "uppercase" else args[0].lower())
                if i != want:
                    report("implementation-vs-plain-operation (full Unicode case mapping, Python oracle)", cmd, args, r_lines[k], m, i,
                           [], {"python_oracle": want})
            continue
        if m[:1] in "VL" and any(a != "" for a in args):
            nontriv.add(r_lines[k])
        if cmd == "substring" and len(args) >= 3 and py_parse_int(args[2]) == blen(args[0]) and m == "E8":
            # end index equal to the text length: the documentation does not settle whether it is accepted
            # (the property leaves it unconstrained).  Accepted here: the error result, or the slice [start, len).
            unconstrained += 1
            a = py_parse_int(args[1])
            raw = args[0].encode("utf8")
            try:
                okv = "V" + enc_str(raw[a:].decode("utf8")) if raw[:a].decode("utf8") is not None else None
            except UnicodeDecodeError:
                okv = None
            if not (i.startswith("E") or (okv is not None and i == okv)):
                report("substring with end = length: neither the error result nor the slice", cmd, args, r_lines[k], m, i,
                       ["C16_substr"], {"accepted": ["E*", okv]})
            continue
        if not same(m, i):
            report("model-vs-implementation", cmd, args, r_lines[k], m, i, THM.get(cmd, []))
            continue
        o = py_oracle(cmd, args)
        if o is not None and not (o == i or (o == "E" and i.startswith("E"))):
            report("implementation-vs-plain-operation (Python oracle on UTF-8 bytes)", cmd, args, r_lines[k], m, i,
                   THM.get(cmd, []), {"python_oracle": o})
            continue
        # the property evaluated on the implementation's own output
        if cmd == "split" and i.startswith("L") and len(args) >= 2:
            pieces = dec_list(i[1:])
            if args[1].join(pieces) != args[0]:
                report("split pieces joined by the separator differ from the text", cmd, args, r_lines[k], m, i, ["C16_split"])
        if cmd == "indexof" and i.startswith("V") and len(args) >= 2 and args[0] != "":
            units_second.append((args[0], args[1], dec_str(i[1:]), r_lines[k]))

    # ---- call history: every command of this property is a FUNCTION of its arguments, so the same call gives the same result
    # after any earlier lines of the same run: earlier calls of the same command with the same / other arguments, and - for the
    # commands that answer with a fresh array (range, split) - earlier results modified in place, emptied or released
    # (seed C16-w5-m2: range handed out the array of an earlier call with the same bounds again)
    hist = []
    good = [k for k, ((cmd, args, grp), m, i) in enumerate(zip(cases, m_r, i_r)) if m != "OOD" and same(m, i) and m[:1] in "VLN"]
    rng.shuffle(good)
    by_cmd = {}
    for k in good:
        by_cmd.setdefault(cases[k][0], []).append(k)
    for k in good[:(8000 if thorough else 1200)] + [k2 for c_ in ("range", "split") for k2 in by_cmd.get(c_, [])[:(1500 if thorough else 300)]]:
        cmd, args, _grp = cases[k]
        env, pre = [], []
        for j in range(rng.randint(1, 3)):
            if rng.random() < 0.6:
                call = cmd + "".join(" ${v%d}" % t for t in range(len(args)))
            else:
                oargs = cases[rng.choice(by_cmd[cmd])][1]
                call = cmd
                for a in oargs:
                    call += " ${e%d}" % len(env)
                    env.append(a)
            pre.append("p%d = %s" % (j, call))
            if cmd in ("range", "split"):
                pre.append(rng.choice(["array_set ${p%d} 0 zz" % j, "array_pop ${p%d}\narray_push ${p%d} zz" % (j, j), "array_clear ${p%d}" % j,
                                       "release ${p%d}" % j, "array_push ${p%d} zz" % j, "noop", "array_set ${p%d} 1 zz\nrelease ${p%d}" % (j, j)]))
        hist.append((k, env, "\n".join(pre) + "\n"))
    h_lines = ["RH\t%s\t%s\t%s\t%s" % (cases[k][0], enc_list(cases[k][1]), enc_list(env), enc_str(pre)) for (k, env, pre) in hist]
    h_out = ck.impl(h_lines)
    for (k, env, pre), line, o in zip(hist, h_lines, h_out):
        if o != i_r[k]:
            cmd, args, _grp = cases[k]
            report("call history: the same call gives another result after earlier lines of the same run", cmd, args, line, m_r[k], o,
                   THM.get(cmd, []), {"earlier_lines": pre.split("\n"), "earlier_values(e0..)": env, "result_of_the_call_alone": i_r[k]})
    ck.coverage["call_history_cases"] = len(hist)

    # units: substring(s, 0, indexof(s, t)) ++ t is a prefix of s, on the implementation alone
    u_lines = ["R\tsubstring\t" + enc_list([s, "0", idx]) for (s, t, idx, _) in units_second]
    u_out = ck.impl(u_lines)
    for (s, t, idx, line), o in zip(units_second, u_out):
        good = o.startswith("V") and s.startswith(dec_str(o[1:]) + t)
        if not good:
            report("units: substring(s, 0, indexof(s, t)) followed by t is not a prefix of s", "indexof+substring",
                   [s, t], line, "indexof=" + idx, "substring(s,0,%s)=%s" % (idx, o), ["C16_units", "C16_units_cmd"])

    # spec (S, extracted) vs model on the theorem's domain: sanity of extraction, and spec-vs-implementation
    s_lines, s_expect = [], []
    for k, ((cmd, args, grp), m, i) in enumerate(zip(cases, m_r, i_r)):
        if cmd in ("indexof", "last_indexof") and len(args) >= 2:
            s_lines.append("S\t%s\t%s\t%s" % ("find" if cmd == "indexof" else "rfind", enc_str(args[0]), enc_str(args[1])))
            s_expect.append((k, m, i))
        elif cmd == "substring" and len(args) >= 3 and m.startswith("V"):
            a, b = py_parse_int(args[1]), py_parse_int(args[2])
            if a is not None and b is not None and a >= 0 and b >= 0:
                s_lines.append("S\tslice\t%s\t%d\t%d" % (enc_str(args[0]), a, b))
                s_expect.append((k, m, i))
    s_out = ck.model(s_lines)
    for (k, m, i), so, sl in zip(s_expect, s_out, s_lines):
        if so != m or not same(so, i):
            cmd, args, _ = cases[k]
            report("spec-vs-implementation" if not same(so, i) else "spec-vs-model (extraction sanity)", cmd, args, r_lines[k], m, i,
                   ["C16_spec_find", "C16_spec_rfind", "C16_spec_slice"], {"spec": so, "spec_wire": sl})

    # calc
    calc_dist = {}
    big_total = big_rounded = 0
    big_samples = []
    for e, kl, cl, args, m, i in zip(trees, k_lines, calc_lines, calc_args, m_k, i_k):
        key = "calc:" + (m[:1] if m[:1] == "V" else "BIG" if m.startswith("BIG") else m)
        calc_dist[key] = calc_dist.get(key, 0) + 1
        if m.startswith("BIG"):
            # an integer result beyond 2^53 (still inside i64): must be printed exactly (finding F19, fixed in 0d59524:
            # eval_number used to convert the result to f64)
            big_total += 1
            if i != "V" + m[3:]:
                big_rounded += 1
                if len(big_samples) < 3:
                    big_samples.append({"expression": " ".join(args), "exact": dec_str(m[3:]), "calc": dec_str(i[1:]) if i.startswith("V") else i})
                report("model-vs-implementation (calc: integer result beyond 2^53 not exact)", "calc", args, cl, "V" + m[3:], i, [],
                       {"expression_tree": kl})
            else:
                nontriv.add(cl)
            continue
        if m == "OOD":
            ood += 1
            if i == "PANIC" or i.startswith("X") or i.startswith("DIED"):
                report("implementation failed outside the modelled domain", "calc", args, cl, m, i, [])
            continue
        if m.startswith("V"):
            nontriv.add(cl)
        if not same(m, i):
            report("model-vs-implementation (calc: integer arithmetic on the expression tree)", "calc", args, cl, m, i, [],
                   {"expression_tree": kl})
    if not same("E15", i_k[-1]):
        report("model-vs-implementation", "calc", [], "R\tcalc\t-", "E15", i_k[-1], [])
    dist.update(calc_dist)
    n_eval = len(cases) + len(trees) + len(units_second) + 2
    ck.coverage.update({
        "evaluations": n_eval,
        "distinct_nontrivial": len(nontriv),
        "rule": "one evaluation = one command call on both sides; non-trivial = distinct case whose model result is a value or a "
                "list (not an error / none) and that has at least one non-empty argument. Exhaustive part: every string of "
                "length <= %d over {a,b,é,😀,space}: substring with no index, every single index in [-bytes-2, bytes+2] and every "
                "index pair in [-2, bytes+2]^2; every (haystack of length <= %d, needle of length <= %d) pair%s and every (haystack "
                "<= 2, needle <= 3) pair for indexof/last_indexof/contains/starts_with/ends_with/equals/split; replace on "
                "haystack <= 3, pattern <= 2, five replacements; every text of length <= %d over {a,b} against every pattern of "
                "length <= 3 (overlapping occurrences) for indexof/last_indexof/split/replace; 23 letter-case / look-alike words "
                "pairwise; trim family on every string of length <= %d over 12 white-space candidates; range for all bounds "
                "in [-4,5]^2" % (n_s, n_s, n_t, " plus (length 5, needle <= 2)" if thorough else "", 7 if thorough else 6,
                                 4 if thorough else 3),
        "exhaustive": True,
        "exhaustive_part": {"cases": n_exh, "strings": len(S), "needles": len(T)},
        "groups": groups,
        "result_distribution": dist,
        "outside_modelled_domain_not_compared": ood,
        "substring_end_equals_length_unconstrained": unconstrained,
        "units_second_pass": len(units_second),
        "calc_integer_results_beyond_2^53": {"cases": big_total, "rounded_by_calc": big_rounded, "samples": big_samples,
                                             "note": "compared exactly since the fix of finding F19 (calc rounded integer results through f64)"},
        "spec_vs_model_cases": len(s_lines),
        "samples": [r_lines[0], r_lines[len(r_lines) // 3], r_lines[-1], k_lines[0] + " => " + " ".join(calc_args[0])],
    })
    ck.report_broken(found)
    ck.assumptions += [
        "Rust's str::find / rfind / contains / starts_with / ends_with / split / replace (with a &str pattern), trim*, len, "
        "get(a..b), parse::<isize/i64> and integer to_string are assumed to be the naive list functions of Strings.v "
        "(sampled by the correspondence run and by an independent Python oracle, not proved)",
        "isize is 64 bits; String::len() <= isize::MAX (Rust allocation invariant) is a hypothesis of C16_units_cmd",
        "less_than / greater_than: f64 rounding is NOT modelled; compared as exact rationals on literals with <= 15 significant "
        "digits and magnitude in [1e-290, 1e290] or zero (there decimal->f64 is injective and monotone); inf / nan / longer "
        "literals are outside the domain and only checked not to panic",
        "calc: evalexpr is third-party and not modelled; integer expression trees with + - * / % and unary minus are compared with a "
        "checked-i64 evaluator (integer results are compared exactly over the whole i64 range)",
        "uppercase / lowercase: compared with the ASCII mapping on ASCII-only text; the Unicode case tables are not modelled",
        "concat is script-implemented (for-in over the argument array through the alias-command wrapper): modelled as a left fold",
        "White_Space table checked against char::is_whitespace for all 1,112,064 scalar values on every run",
    ]
