"""C03 — the runner executes exactly what the command results dictate.

Formal side: props/C03.v (model Runner.v of runner.rs, abstract machine RunnerSpec.v, proofs
RunnerProof.v; parametric in the commands).  Correspondence: generated programs over scripted
commands are run by the extracted model (instantiated with the scripted commands of
RunnerScripted.v; it is proved equal to the abstract machine, C03_step / C03_refines /
C03_complete) and by the real runner (run_script on the text, run_script_file on a temporary
file); the invocation log with arguments, the returned variables and Ok / Err(kind, line,
source) must agree.  Only programs the model finishes within the fuel bound are sent to the
implementation; the harness has an invocation-count watchdog."""
import itertools
import os
import vlib
from vlib import enc_str
from props import runner_gen as G

THEOREMS = ["C03_labels", "C03_labels_none", "C03_step", "C03_refines", "C03_complete", "C03_spec_det",
            "C03_error_position", "C03_continue_output", "C03_error_reported", "C03_nonvacuous",
            # the runner WITH argument binding (RunnerBind.v): same theorems, simulation by Runner.v, C02 composition
            "C03_step_bound", "C03_refines_bound", "C03_complete_bound", "C03_spec_det_bound", "C03_bound_conservative",
            "C03_bound_sim", "C03_bound_receives", "C03_bound_nonvacuous"]
FUEL = 400
SCRATCH = os.path.join(vlib.ROOT, ".cache", "c03")


def small_shapes():
    """line shapes of the exhaustive part (command name filled in per line)"""
    return [None, {"label": ":a"}, {"cmd": "@"}, {"out": "x", "cmd": "@"}, {"label": ":a", "out": "x", "cmd": "@", "args": ["p q", ""]},
            {"out": "x"}]


def small_results(n):
    return [("C", "v"), ("C", None), ("L", None, ":a"), ("L", "g", ":zz"), ("J", None, 0), ("J", "j", n + 1),
            ("X", None), ("X", "0"), ("X", "3"), ("X", "abc"), ("E", "m1"), ("K", "boom")]


def exhaustive(thorough):
    """(lines, cmds) for every program with <= 2 (thorough: 3) lines over the full small alphabets, every
    3 (4)-line program over reduced alphabets, each with and without on_error handlers"""
    out = []
    handlers = [None, [("C", None)], [("X", None)], [("K", "hcrash")]]

    def family(n, shapes, results, hs):
        per_line = []
        for k in range(n):
            opts = []
            for s in shapes:
                if s is None or "cmd" not in s:
                    opts.append((s, None))
                else:
                    for r in results:
                        opts.append((dict(s, cmd="c%d" % k), r))
            per_line.append(opts)
        for combo in itertools.product(*per_line):
            lines = [c[0] for c in combo]
            base = {"c%d" % k: (False, [c[1]]) for k, c in enumerate(combo) if c[1] is not None}
            has_err = any(c[1] is not None and c[1][0] == "E" for c in combo)
            for h in (hs if has_err else [None]):
                cmds = dict(base)
                if h is not None:
                    cmds[G.ON_ERROR] = (True, h)
                out.append((lines, cmds))

    full_n = 3 if thorough else 2
    for n in range(0, full_n + 1):
        family(n, small_shapes(), small_results(n), handlers)
    red_shapes = [None, {"label": ":a", "out": "x", "cmd": "@"}, {"cmd": "@"}]
    red_results = lambda n: [("C", "v"), ("C", None), ("L", None, ":a"), ("J", None, n), ("E", "m1"), ("X", "1")]
    family(full_n + 1, red_shapes, red_results(full_n + 1), [None, [("C", None)]])
    # one command on every line, every result sequence of length <= n+1 over a 7-letter alphabet
    seq_alpha = [("C", "v"), ("C", None), ("L", None, ":a"), ("J", None, 1), ("E", "m1"), ("X", "2"), ("K", "boom")]
    for n in (1, 2, 3):
        progs = [[{"out": "x", "cmd": "c0"}] * n,
                 [{"label": ":a", "cmd": "c0"}] + [{"out": "x", "cmd": "c0"}] * (n - 1)]
        for ln in range(1, (n + 2 if thorough else n + 1) + 1):
            for seq in itertools.product(seq_alpha, repeat=ln):
                for p in progs:
                    out.append((p, {"c0": (False, list(seq))}))
    return out


def shrink(ck, lines, cmds, vars_, src, kind="P", render=None):
    """greedy: drop lines / trailing results while model and implementation still disagree"""
    render = render or G.render

    def cases(cands):
        return [G.case_line(kind, src, None, FUEL, l, c, vars_, render(l)) for (l, c) in cands]

    cur = (lines, cmds)
    for _ in range(40):
        cands = []
        l, c = cur
        for k in range(len(l)):
            cands.append((l[:k] + l[k + 1:], c))
        for n, (cyc, rs) in c.items():
            if rs:
                c2 = dict(c)
                c2[n] = (cyc, rs[:-1])
                cands.append((l, c2))
        if not cands:
            break
        cl = cases(cands)
        mo = ck.model(cl)
        io = ck.impl(cl)
        nxt = None
        for cand, m, i in zip(cands, mo, io):
            if m.startswith("FUEL"):
                continue
            if not G.agree(m.split("\t"), i.split("\t"), cand[1]):
                nxt = cand
                break
        if nxt is None:
            break
        cur = nxt
    return cur


# ---- the bound stream: arguments with ${x} / %{x} / \${x} templates over variables the commands set ---------------
B_NAMES = ["x", "y", "z", "keep", "nope"]
B_LITS = ["a", "b1", "p q", "é", "-", "{", "}", "7", "#h", "=", "\"q", ":", "a:b", " "]
B_VALUES = G.VALUES + ["${y}", "%{y}", "\\${y}", "a \"b c\"", "a \"b", "#h x", "\\", "p  q ", " ", "é ü", "a\tb", "x=y", "}", "$", "%"]
B_MSGS = G.MSGS + ["${x}", "%{y} z", "\\${x}", "m ${nope}"]


def b_render_arg(a):
    """always a text the parser reads back as exactly `a` (checked by the harness on every case)"""
    if a != "" and all(c.isalnum() or c in "${}%._-:" for c in a) and not a.startswith(":"):
        return a
    return '"' + a.replace("\\", "\\\\").replace('"', '\\"').replace("\n", "\\n").replace("\r", "\\r").replace("\t", "\\t") + '"'


def b_render(lines, blanks=None, sp=" "):
    out = []
    for k, l in enumerate(lines):
        if l is None:
            out.append((blanks or {}).get(k, ""))
            continue
        parts = []
        if l.get("label"):
            parts.append(l["label"])
        if l.get("out") is not None:
            parts += [l["out"], "="]
        if l.get("cmd") is not None:
            parts.append(l["cmd"])
            parts += [b_render_arg(a) for a in (l.get("args") or [])]
        out.append(sp.join(parts))
    return "\n".join(out) + ("\n" if out else "")


def b_piece(rng):
    r = rng.random()
    if r < 0.35:
        return rng.choice(B_LITS)
    if r < 0.80:
        return "${%s}" % rng.choice(B_NAMES)
    return "\\${%s}" % rng.choice(B_NAMES)


def b_arg(rng):
    """a written argument inside C02's domain: a template of 0-4 pieces, or a whole-argument %{name}"""
    if rng.random() < 0.2:
        return "%%{%s}" % rng.choice(B_NAMES)
    return "".join(b_piece(rng) for _ in range(rng.choice([1, 1, 2, 2, 3, 4, 0])))


def b_result(rng, r):
    if r[0] == "!":
        return ("!", b_result(rng, r[1]))
    if r[0] in ("C", "L", "J", "X") and r[0] != "X" and rng.random() < 0.6:
        return (r[0], rng.choice(B_VALUES)) + tuple(r[2:])
    if r[0] == "E" and rng.random() < 0.4:
        return ("E", rng.choice(B_MSGS))
    return r


def b_program(rng):
    lines, cmds, vars_, blanks, sp = G.rand_program(rng, max_lines=10)
    for l in lines:
        if l and l.get("cmd") is not None:
            l["args"] = [b_arg(rng) for _ in range(rng.choice([0, 1, 1, 2, 2, 3]))]
            if rng.random() < 0.7:
                l["out"] = rng.choice(G.OUTS)
    cmds = {n: (cyc, [b_result(rng, r) for r in rs]) for n, (cyc, rs) in cmds.items()}
    if rng.random() < 0.5:
        vars_ = {v: rng.choice(B_VALUES[1:]) for v in rng.sample(B_NAMES[:4], rng.randint(1, 3))}
    return lines, cmds, vars_, blanks, sp


def b_exhaustive():
    """line 1 `x = c0` (c0 answers every value of the pool), line 2 `[y =] c1 <arg>` for every template of <= 2 pieces
    over 5 pieces and the spread of x, c1 continuing or failing with a template-like message under an on_error handler"""
    pieces = ["a", "p q", "${x}", "${nope}", "\\${x}"]
    args = [""] + pieces + [a + b for a in pieces for b in pieces] + ["%{x}", "%{nope}"]
    out = []
    for v in B_VALUES:
        for a in args:
            l = [{"out": "x", "cmd": "c0"}, {"out": "y", "cmd": "c1", "args": [a, "k"]}]
            out.append((l, {"c0": (False, [("C", v)]), "c1": (False, [("C", "r")])}))
        for a in args[:8]:
            l = [{"out": "x", "cmd": "c0"}, {"cmd": "c1", "args": [a]}, {"cmd": "c1", "args": ["${x}", a]}]
            out.append((l, {"c0": (False, [("C", v)]), "c1": (True, [("E", "${x} " + (v or ""))]),
                            G.ON_ERROR: (True, [("C", None)])}))
    return out



def replay(ck, data):
    """vcheck Cxx --replay file: re-run the recorded case on both sides; status 1 if they still disagree"""
    wire = data.get("wire")
    print("script:\n" + str(data.get("script")))
    if not wire:
        print("replay: this file names a broken obligation, not an input; re-run the check itself")
        return 1
    ck.ocaml_build()
    ck.harness_build([ck.prop.lower()])
    m, i = ck.model([wire])[0], ck.impl([wire])[0]
    print("model:          " + m)
    print("implementation: " + i)
    same = G.agree(m.split("\t"), i.split("\t")[:6], _cmds_of(wire))
    print("REPLAY: " + ("agree now" if same else "still disagree"))
    return 0 if same else 1


def _cmds_of(wire):
    """known scripted messages of a case line (for the message classification)"""
    f = wire.split("\t")
    cmds = {}
    if f[5] != "-":
        for c in f[5].split(";"):
            n, cyc, rs = c.split("|")
            out = []
            if rs != "-":
                for r in rs.split(","):
                    r = r.lstrip("!")
                    if r[0] in "EK":
                        out.append((r[0], vlib.dec_str(r[1:])))
            cmds[vlib.dec_str(n)] = (cyc == "1", out)
    return cmds


def run(ck):
    ck.gen_from_source()
    ck.coq_build(["props/C03.vo", "extract/C03_extract.vo"])
    ck.print_assumptions(["DSP.C03"], ["DSP.C03." + t for t in THEOREMS])
    ck.source_tie("runner")
    ck.source_tie("smallnat")
    ck.hygiene()
    ck.ocaml_build()
    ck.harness_build(["c03"])
    model_ok = not any(b.startswith("ocaml") for b in ck.broken) and os.path.exists(
        os.path.join(vlib.ROOT, "ocaml", "bin", "c03_model"))
    os.makedirs(SCRATCH, exist_ok=True)
    thorough = ck.tier == "thorough"
    rng = ck.rng
    found = False

    progs = []      # (lines, cmds, vars, blanks, sp, src)
    # corpus: the situations named in the property's why_tests_cant note
    progs.append(([{"cmd": "c0"}, {"out": "x", "cmd": "c0"}, {"label": ":a", "out": "x", "cmd": "c0"}, {"cmd": "c0"}],
                  {"c0": (False, [("L", None, ":a"), ("E", "m1"), ("C", None)]), G.ON_ERROR: (True, [("C", None)])}, {}, {}, " ", None))
    progs.append(([{"out": "x", "cmd": "c0"}, {"cmd": "c0"}, {"out": "x", "cmd": "c0"}],
                  {"c0": (False, [("C", "v"), ("J", None, 2), ("C", None)])}, {}, {}, " ", None))
    n_corpus = len(progs)
    ex = exhaustive(thorough)
    for k, (lines, cmds) in enumerate(ex):
        progs.append((lines, cmds, {}, {}, " ", None))
    n_exh = len(ex)
    n_rand = 400000 if thorough else 40000
    for k in range(n_rand):
        lines, cmds, vars_, blanks, sp = G.rand_program(rng)
        src = None
        if rng.random() < 0.3:
            src = os.path.join(SCRATCH, "p%d.ds" % k)
        progs.append((lines, cmds, vars_, blanks, sp, src))

    lines_out = [G.case_line("P", p[5], None, FUEL, p[0], p[1], p[2], G.render(p[0], p[3], p[4])) for p in progs]
    stats = {"model_outcome": {}, "sizes": {}, "mode": {"text": 0, "file": 0}, "on_error_invoked": 0,
             "with_on_error": 0, "not_sent_out_of_fuel": 0, "err_kinds": {}, "duplicate_labels": 0}
    if model_ok:
        m_out = ck.model(lines_out)
        send = [k for k, m in enumerate(m_out) if not m.startswith("FUEL") and m != "BADLINE"]
        stats["not_sent_out_of_fuel"] = len(lines_out) - len(send)
        i_out_s = ck.impl([lines_out[k] for k in send])
        i_out = dict(zip(send, i_out_s))
        nontriv = set()
        oe_enc = enc_str(G.ON_ERROR) + "|"
        for k in send:
            p = progs[k]
            m = m_out[k].split("\t")
            i = i_out[k].split("\t")
            key = m[0] + (":" + m[1].split(" ")[0] if m[0] != "FUEL" else "")
            stats["model_outcome"][key] = stats["model_outcome"].get(key, 0) + 1
            stats["sizes"][len(p[0])] = stats["sizes"].get(len(p[0]), 0) + 1
            stats["mode"]["file" if p[5] else "text"] += 1
            if G.ON_ERROR in p[1]:
                stats["with_on_error"] += 1
            ncalls = 0 if m[4] == "-" else m[4].count(";") + 1
            if oe_enc in m[4]:
                stats["on_error_invoked"] += 1
            labs = [l.get("label") for l in p[0] if l and l.get("label")]
            if len(labs) != len(set(labs)):
                stats["duplicate_labels"] += 1
            if ncalls >= 2:
                nontriv.add("\t".join(lines_out[k].split("\t")[4:7]))
            if not G.agree(m, i, p[1]):
                found = True
                if len(ck.violations) < 5:
                    sl, sc = shrink(ck, p[0], p[1], p[2], p[5])
                    scase = G.case_line("P", p[5], None, FUEL, sl, sc, p[2], G.render(sl))
                    sm, si = ck.model([scase])[0], ck.impl([scase])[0]
                    ck.violation({
                        "kind": "abstract machine (extracted model, C03_step) vs implementation",
                        "script": G.render(sl), "commands": {n: {"cyclic": c, "results": [list(map(str, r)) for r in rs]} for n, (c, rs) in sc.items()},
                        "initial_variables": p[2], "source_file": p[5],
                        "model": sm, "implementation": si,
                        "fields": "status, detail, line, source, invocation log (name|args|out|line), variables",
                        "original_case": {"script": G.render(p[0], p[3], p[4]), "model": m_out[k], "implementation": i_out[k]},
                        "wire": scase, "theorems": ["C03_step", "C03_refines", "C03_complete"], "seed": ck.seed,
                        "replay_cmd": "printf '%s\\n' | .cache/cargo-target/release/c03   (and | ocaml/bin/c03_model)" % scase.replace("\t", "\\t")})
        # ---- bound stream ---------------------------------------------------------------------------------------
        import time
        t_b0 = time.time()
        bprogs = [(l, c, {}, {}, " ", None) for (l, c) in b_exhaustive()]
        n_bexh = len(bprogs)
        for k in range(40000 if thorough else 4000):
            lines, cmds, vars_, blanks, sp = b_program(rng)
            src = os.path.join(SCRATCH, "b%d.ds" % k) if rng.random() < 0.2 else None
            bprogs.append((lines, cmds, vars_, blanks, sp, src))
        b_lines = [G.case_line("B", p[5], None, FUEL, p[0], p[1], p[2], b_render(p[0], p[3], p[4])) for p in bprogs]
        bm = ck.model(b_lines)
        bsend = [k for k, m in enumerate(bm) if not m.startswith("FUEL") and m != "BADLINE"]
        bi = dict(zip(bsend, ck.impl([b_lines[k] for k in bsend])))
        bstats = {"programs": len(bsend), "exhaustive_part": n_bexh, "not_sent_out_of_fuel": len(b_lines) - len(bsend),
                  "invocations": 0, "invocations_with_changed_arguments": 0, "argument_count_changed": 0,
                  "on_error_invoked": 0, "model_outcome": {}, "render_mismatch": 0}
        bnontriv = set()
        for k in bsend:
            p = bprogs[k]
            m = bm[k].split("\t")
            i = bi[k].split("\t")
            if i[0] == "RENDER-MISMATCH":
                # the generator wrote a text that does not parse back to the intended instructions: a bug of this check
                bstats["render_mismatch"] += 1
                ck.broken.append("c03 bound stream: renderer mismatch on %r (%s)" % (b_render(p[0], p[3], p[4]), bi[k]))
                continue
            key = m[0] + (":" + m[1].split(" ")[0] if len(m) > 1 else "")
            bstats["model_outcome"][key] = bstats["model_outcome"].get(key, 0) + 1
            if len(m) == 6 and m[4] != "-":
                written = [l.get("args") or [] for l in p[0] if l and l.get("cmd") is not None]
                flat = set(vlib.enc_list(a) for a in written)
                for call in m[4].split(";"):
                    cf = call.split("|")
                    bstats["invocations"] += 1
                    if cf[0] == enc_str(G.ON_ERROR) and cf[2] == "N" and cf[3] == "0":
                        bstats["on_error_invoked"] += 1
                    elif cf[1] not in flat:
                        bstats["invocations_with_changed_arguments"] += 1
                        bnontriv.add("\t".join(b_lines[k].split("\t")[4:7]))
                        if not any(len(vlib.dec_list(cf[1])) == len(a) for a in written):
                            bstats["argument_count_changed"] += 1
            if not G.agree(m, i, p[1]):
                found = True
                if len(ck.violations) < 5:
                    sl, sc = shrink(ck, p[0], p[1], p[2], p[5], kind="B", render=b_render)
                    scase = G.case_line("B", p[5], None, FUEL, sl, sc, p[2], b_render(sl))
                    sm, si = ck.model([scase])[0], ck.impl([scase])[0]
                    ck.violation({
                        "kind": "runner with argument binding: abstract machine (extracted RunnerBind model, C03_step_bound) vs implementation",
                        "script": b_render(sl), "commands": {n: {"cyclic": c, "results": [list(map(str, r)) for r in rs]} for n, (c, rs) in sc.items()},
                        "initial_variables": p[2], "source_file": p[5],
                        "model": sm, "implementation": si,
                        "fields": "status, detail, line, source, invocation log (name|BOUND args|out|line), variables",
                        "original_case": {"script": b_render(p[0], p[3], p[4]), "model": bm[k], "implementation": bi[k]},
                        "wire": scase, "theorems": ["C03_step_bound", "C03_refines_bound", "C03_complete_bound", "C02_bind"], "seed": ck.seed,
                        "replay_cmd": "printf '%s\\n' | .cache/cargo-target/release/c03   (and | ocaml/bin/c03_model)" % scase.replace("\t", "\\t")})
        bstats["seconds"] = round(time.time() - t_b0, 1)
        stats["bound_stream"] = bstats
        ck.coverage.update({
            "evaluations": len(send) + len(bsend),
            "bound_stream_rule": "runner WITH binding (RunnerBind.run_bound): " + b_exhaustive.__doc__ + "; random programs of <= 10 lines whose "
                                 "arguments are templates of 0-4 pieces (literal text, ${name}, \\${name}) or %{name} over 5 names, with command "
                                 "results, error messages and initial variables drawn from a pool of hostile values (${y}, %{y}, quotes, #, "
                                 "backslash, blanks); non-trivial = the log shows an invocation whose arguments differ from every written list",
            "bound_stream_distinct_nontrivial": len(bnontriv),
            "distinct_nontrivial": len(nontriv),
            "rule": "every program of <= %d lines over 6 line shapes x 12 results per command (with / without on_error handlers "
                    "that continue, exit, crash), every %d-line program over 3 shapes x 6 results, one command on 1-3 lines with every "
                    "result sequence over 7 results (exhaustive part: %d programs); random programs of <= 14 lines with 1-4 commands of "
                    "0-6 results (duplicate labels, undefined labels, in-range / past-the-end / huge line jumps, 24 exit values, unknown "
                    "commands, `x =` lines, initial variables), 50%% with a scripted on_error, 30%% run from a file; non-trivial = distinct "
                    "(program, commands, variables) whose run makes at least two command invocations" % (3 if thorough else 2, 4 if thorough else 3, n_exh),
            "exhaustive": True,
            "exhaustive_part": {"programs": n_exh, "corpus": n_corpus},
            "samples": [G.render(progs[0][0]), G.render(progs[n_corpus + n_exh // 2][0]), G.render(*[progs[-1][j] for j in (0, 3, 4)])],
            "distribution": stats,
        })
    else:
        ck.coverage.update({"evaluations": 0, "distinct_nontrivial": 0, "rule": "model did not build", "samples": []})
    ck.report_broken(found)
    ck.assumptions += [
        "main stream: argument binding (expand_by_wrapper) is the identity on the generated arguments (no '$', '%' or backslash) and Runner.v is the model; "
        "bound stream: RunnerBind.v binds with the Expansion.v model of expand_by_wrapper (C02) — proved to refine the same abstract machine with bound invocations "
        "(C03_step_bound / C03_refines_bound) and to be Runner.v when the binder is the identity (C03_bound_conservative)",
        "commands are modelled as functions of (name, arguments, output variable, line, variables, command state, halt flag); commands that replace the command registry itself are covered through the abstract exists_cmd/cmd pair",
        "the text -> instruction step is the real parser on the Rust side and a direct construction on the model side (labels, output, command, arguments, 1-based line, source); pre-processor lines are modelled but not generated",
        "repl_mode = false (run_script / run_script_file); the REPL entry point is not covered",
        "the run's internal `state` clone is written back only on success; on failure the context is dropped, so nothing is observable",
    ]
