"""C01 — a line written with the documented syntax parses back to the same instruction.

Formal side: props/C01.v (`C01_line`, `C01_script`) about the renderer DS.Render.render_line and
the parser model DS.Parser.
Correspondence: every case is an instruction (or a script of instructions) plus rendering choices;
the text is produced by the *extracted* `render_script`, cases outside the theorem's domain
(extracted `wf && valid` false) are dropped, and `duckscript::parser::parse_text` on the text
must return exactly the instructions that were rendered (the right-hand side of C01_script,
computed by the extracted `expect_from`).  The extracted parser model is run on the same texts as a
sanity check of extraction.  Exhaustive small scope (all argument strings up to 3 characters over a
17-character alphabet with every quoting / escaping choice; all 8 shapes with all spacing /
comment / white-space choices from small sets) followed by random instructions with arbitrary
Unicode arguments and scripts of 1-200 lines with mixed LF / CRLF."""
import itertools
import json
import os
import vlib
from vlib import enc_str, dec_str, enc_list

THEOREMS = ["C01_line", "C01_script", "C01_quoted_token", "C01_unquoted_token"]
ALPH = ['a', '"', '\\', '#', '=', ':', '$', '%', '{', '}', ' ', '\t', '\n', '\r', 'é', '\xa0', '!']
WS = set("\t\n\x0b\x0c\r \x85\xa0                　")
WS_LINE = [c for c in sorted(WS) if c != "\n"]
NAME_POOL = "abcxyzABC019_-.:=$%{}\"!/é中\U0001F600'*+<>()[]|~^&@?;,"


def enc_opt(s):
    return "N" if s is None else "S" + enc_str(s)


def mk_item(label, output, command, args, lead="", trail="", lg=0, el=1, er=1, argch=None, comment=None, eol="L"):
    if argch is None:
        argch = [(0, 1, "-")] * len(args)
    ac = " ".join("%d:%d:%s" % (g, q, b if b else "-") for (g, q, b) in argch) if argch else "-"
    cm = "N" if comment is None else "%d:%s" % (comment[0], enc_str(comment[1]))
    return ",".join([enc_opt(label), enc_opt(output), enc_opt(command), enc_list(args), enc_str(lead), enc_str(trail),
                     str(lg), str(el), str(er), ac, cm, eol])


def case(items, last=None):
    return "S\t%s\t%s" % (";".join(items) if items else "-", last if last else "N")


# ---- generators -----------------------------------------------------------------------------------
def g_name(rng, first=False, no_eq=False, perturb=0.0):
    n = rng.randint(1, 8)
    out = []
    for k in range(n):
        while True:
            c = rng.choice(NAME_POOL) if rng.random() < 0.9 else chr(rng.choice([rng.randint(0x21, 0x7e), rng.randint(0xa1, 0x2fff), rng.randint(0x10000, 0x10ffff)]))
            if rng.random() >= perturb:
                if c in WS or c in "#\\" or (k == 0 and c == '"') or (no_eq and c == "=") or (first and k == 0 and c in ":!"):
                    continue
            break
        out.append(c)
    return "".join(out)


def rand_scalar(rng):
    while True:
        c = rng.randint(0, 0x10FFFF)
        if not 0xD800 <= c <= 0xDFFF:
            return chr(c)


def g_argstr(rng):
    n = rng.choice([0, 1, 1, 2, 3, 5, 8, 13, 40])
    n = rng.randint(0, n)
    out = []
    for _ in range(n):
        r = rng.random()
        if r < 0.4:
            out.append(rng.choice(ALPH))
        elif r < 0.6:
            out.append(chr(rng.randint(32, 126)))
        elif r < 0.7:
            out.append(rng.choice(sorted(WS)))
        else:
            out.append(rand_scalar(rng))
    return "".join(out)


def choose_arg(rng, a, first_noout, perturb=0.0):
    """a mostly-valid choice (gap, quoted, escape bits) for argument a"""
    need_q = a == "" or " " in a or "#" in a or (first_noout and a.startswith("="))
    # a token that ENDS in a blank needs quotes (the line is trimmed when it is the last token); a blank other than the plain space
    # at the START of an unquoted token is data (seed C01-w5-m1: skipped like a separator), so half of those stay unquoted
    c = a[-1:]
    if c and c in WS and c not in "\t\n\r":
        need_q = True
    c = a[:1]
    if c and c in WS and c not in "\t\n\r" and rng.random() < 0.5:
        need_q = True
    q = need_q or rng.random() < 0.4
    if rng.random() < perturb:
        q = not q
    bits = []
    for k, c in enumerate(a):
        must = c in "\\\n\r" or (q and c == '"') or (not q and k == 0 and c == '"') or (not q and c == "\t" and (k == len(a) - 1 or (k == 0 and rng.random() < 0.5)))
        b = must or rng.random() < 0.3
        if rng.random() < perturb / 4:
            b = not b
        bits.append("1" if b else "0")
    gap = rng.randint(0, 3) if rng.random() < 0.3 else 0
    return (gap, 1 if q else 0, "".join(bits))


def g_ws(rng):
    if rng.random() < 0.6:
        return ""
    return "".join(rng.choice(WS_LINE) if rng.random() < 0.5 else rng.choice(" \t") for _ in range(rng.randint(1, 4)))


def g_item(rng, perturb=0.02, eol=None):
    shape = rng.randint(0, 7)
    has_l, has_o, has_c = shape & 1, shape & 2, shape & 4
    if rng.random() < 0.5:
        has_c = 4
    label = g_name(rng, perturb=perturb) if has_l else None
    output = g_name(rng, first=not has_l, no_eq=True, perturb=perturb) if has_o else None
    command = g_name(rng, first=not (has_l or has_o), no_eq=not has_o, perturb=perturb) if has_c else None
    args = [g_argstr(rng) for _ in range(rng.choice([0, 1, 1, 2, 3, 6]))] if has_c else []
    if not has_c and rng.random() < perturb:
        args = ["x"]
    argch = [choose_arg(rng, a, k == 0 and not has_o, perturb) for k, a in enumerate(args)]
    comment = None
    if rng.random() < 0.3:
        comment = (rng.randint(0, 2), "".join(rng.choice(ALPH + ["b", "c"]) if rng.random() < 0.8 else rand_scalar(rng) for _ in range(rng.randint(0, 10))).replace("\n", " " if rng.random() > perturb else "\n"))
    return mk_item(label, output, command, args, g_ws(rng), g_ws(rng), rng.randint(0, 2) if rng.random() < 0.3 else 0,
                   rng.choice([0, 1, 1, 2]), rng.choice([0, 1, 1, 2]), argch, comment, eol or rng.choice("LC"))


def exhaustive_cases(thorough):
    out = []
    maxlen = 3
    # (1) one argument: every string up to maxlen over ALPH, quoted and unquoted, every escape choice
    for shape in ([(None, None, "c"), (None, "o", "c")] if not thorough else [(None, None, "c"), (None, "o", "c"), ("l", None, "c"), ("l", "o", "c")]):
        for n in range(0, maxlen + 1):
            for a in itertools.product(ALPH, repeat=n):
                a = "".join(a)
                for q in (0, 1):
                    for bits in itertools.product("01", repeat=n):
                        out.append(case([mk_item(shape[0], shape[1], shape[2], [a], argch=[(0, q, "".join(bits))])]))
    # (2) two arguments of at most one character (two in thorough), gaps 0/1
    m2 = 2 if thorough else 1
    strs = ["".join(t) for n in range(0, m2 + 1) for t in itertools.product(ALPH, repeat=n)]
    for a in strs:
        for b in strs:
            if len(a) + len(b) > 3:
                continue
            for qa in (0, 1):
                for qb in (0, 1):
                    for ba in itertools.product("01", repeat=len(a)):
                        for bb in itertools.product("01", repeat=len(b)):
                            for (ga, gb) in ([(0, 0), (1, 2)] if len(a) + len(b) <= 2 else [(0, 0)]):
                                out.append(case([mk_item(None, None, "c", [a, b], argch=[(ga, qa, "".join(ba)), (gb, qb, "".join(bb))])]))
    # (3) the eight shapes with every spacing / comment / white-space choice from small sets
    names_l = ["l", ':x"=', "é!"]
    names_o = ["o", 'x":$', "%{}"]
    names_c = ["c", "=x", 'a"b', ":c", "!c"]
    comments = [None, (0, ""), (0, 'x " \\ # ='), (1, " y"), (2, "\r")]
    wss = ["", " ", "\t", "\r", "\xa0 　"]
    argsets = [([], []), (["a"], [(0, 0, "0")]), (["=a", "b c"], [(1, 1, "00"), (0, 1, "000")]), (["\\", "#"], [(0, 0, "1"), (2, 1, "0")])]
    for shape in range(8):
        for l in (names_l if shape & 1 else [None]):
            for o in (names_o if shape & 2 else [None]):
                for c in (names_c if shape & 4 else [None]):
                    for cm in comments:
                        for (lead, trail) in [(a, b) for a in wss for b in wss]:
                            for (lg, el, er) in [(0, 0, 0), (0, 1, 1), (2, 0, 2), (1, 2, 0)]:
                                for (args, ach) in (argsets if shape & 4 else argsets[:1]):
                                    for eol in "LC":
                                        out.append(case([mk_item(l, o, c, args, lead, trail, lg, el, er, ach, cm, eol)]))
                                    out.append(case([], mk_item(l, o, c, args, lead, trail, lg, el, er, ach, cm)))
    return out


def replay(ck, data):
    """bin/vcheck C01 --replay file: render the case again with the extracted renderer, parse the
    text with the implementation, compare with the rendered instructions"""
    print(json.dumps({k: v for k, v in data.items() if k != "coq_log_tail"}, indent=1, ensure_ascii=False)[:3000])
    wire = data.get("wire")
    if wire is None:
        print("replay: this file names a broken obligation, not an input; re-run the check itself")
        return 1
    ck.ocaml_build()
    ck.harness_build(["c01"])
    f = ck.model([wire])[0].split("\t")
    if len(f) != 4:
        print("replay: the driver does not understand the case: " + "\t".join(f)[:200])
        return 1
    flag, text, expected, model = f
    i = ck.impl(["P\t" + text])[0]
    print("in domain (wf && valid): " + flag)
    print("text:           " + repr(dec_str(text)))
    print("expected:       " + expected)
    print("model:          " + model)
    print("implementation: " + i)
    same = i == expected and model == expected
    print("REPLAY: " + ("agree now" if same else "still disagree"))
    return 0 if same else 1


def run(ck):
    ck.gen_from_source()
    ck.coq_build(["props/C01.vo", "extract/C01_extract.vo"])
    import re
    try:
        names = re.findall(r"^Theorem\s+(C01_\w+)", open(os.path.join(vlib.ROOT, "coq", "props", "C01.v")).read(), re.M)
    except OSError:
        names = []
    thms = list(THEOREMS) + [n for n in names if n not in THEOREMS]
    ck.print_assumptions(["DSP.C01"], ["DSP.C01." + t for t in thms])
    ck.source_tie("parser")
    ck.hygiene()
    ck.ocaml_build()
    ck.harness_build(["c01"])
    model_exe = os.path.join(vlib.ROOT, "ocaml", "bin", "c01_model")
    model_ok = not any(b.startswith("ocaml") for b in ck.broken) and os.path.exists(model_exe)
    if not model_ok:
        ck.coverage.update({"evaluations": 0, "distinct_nontrivial": 0, "rule": "model did not build", "samples": []})
        ck.report_broken(False)
        return
    thorough = ck.tier == "thorough"
    rng = ck.rng
    found = False

    cases = []      # (wire, tag)
    import glob
    for fn in sorted(glob.glob(os.path.join(vlib.ROOT, "corpus", "C01", "*.cases"))):
        for l in open(fn):
            l = l.rstrip("\n")
            if l.startswith("S\t"):
                cases.append((l, "corpus"))
    if ck.replay:
        try:
            cases.append((json.load(open(ck.replay))["wire"], "replay"))
        except (OSError, KeyError, ValueError):
            pass
    exh = exhaustive_cases(thorough)
    cases += [(c, "exhaustive") for c in exh]
    n_rand = 300000 if thorough else 20000
    for _ in range(n_rand):
        cases.append((case([g_item(rng)]), "random-line"))
    for _ in range(n_rand // 40):
        n = rng.choice([1, 2, 3, 5, 10, 30, 200]) if thorough else rng.choice([1, 2, 3, 5, 10, 30, 80])
        n = rng.randint(1, n)
        style = rng.choice([None, None, "L", "C"])
        items = [g_item(rng, perturb=0.002, eol=style) for _ in range(n)]
        last = g_item(rng, perturb=0.002) if rng.random() < 0.4 else None
        cases.append((case(items, last), "random-script"))
    # scripts whose lines REPEAT (the same instruction several times, with the same or with another rendering):
    # a parser that remembers earlier lines of the same text must still number every line by its position
    for _ in range(n_rand // 40):
        pool = [g_item(rng, perturb=0.002) for _ in range(rng.randint(1, 3))]
        n = rng.randint(2, 12)
        items = []
        for _k in range(n):
            items.append(rng.choice(pool))
        cases.append((case(items, rng.choice(pool) if rng.random() < 0.4 else None), "repeat-script"))

    wires = [w for (w, _) in cases]
    mo = ck.model(wires)
    texts = []
    for o in mo:
        f = o.split("\t")
        texts.append(f[1] if len(f) == 4 else "e")
    io = ck.impl(["P\t" + t for t in texts])

    in_domain = 0
    tag_total, tag_in = {}, {}
    nontriv = set()
    shape_hist, nlines_hist, argkinds = {}, {}, {"quoted": 0, "unquoted": 0, "escaped_chars": 0}
    for (w, tag), o, i in zip(cases, mo, io):
        tag_total[tag] = tag_total.get(tag, 0) + 1
        f = o.split("\t")
        if len(f) != 4:
            ck.broken.append("driver: " + o[:100])
            continue
        flag, text, expected, model = f
        if flag != "V1":
            continue
        in_domain += 1
        tag_in[tag] = tag_in.get(tag, 0) + 1
        n_instr = int(expected.split(";")[0].split(" ")[1])
        nlines_hist[min(n_instr, 50)] = nlines_hist.get(min(n_instr, 50), 0) + 1
        if ",S," in expected:
            nontriv.add(text)
        for ins in expected.split(";")[1:]:
            p = ins.split(",")
            key = p[2] if p[2] != "S" else "S:" + "".join("1" if x != "N" else "0" for x in p[3:6])
            shape_hist[key] = shape_hist.get(key, 0) + 1
        if tag not in ("random-script", "repeat-script"):
            for it in w.split("\t")[1:]:
                if it not in ("-", "N"):
                    for ac in it.split(",")[9].split(" "):
                        if ac != "-":
                            g, q, b = ac.split(":")
                            argkinds["quoted" if q == "1" else "unquoted"] += 1
                            argkinds["escaped_chars"] += b.count("1")
        if i != expected or model != expected:
            found = True
            if len(ck.violations) < 5:
                ck.violation({"kind": "rendered instruction(s) vs implementation" if i != expected else "rendered instruction(s) vs extracted model",
                              "wire": w, "text": dec_str(text), "text_wire": "P\t" + text,
                              "expected(the instructions that were rendered)": expected, "implementation": i, "model": model,
                              "theorems": ["C01_line", "C01_script"], "seed": ck.seed,
                              "replay_cmd": "printf 'P\\t%s\\n' | .cache/cargo-target/release/c01" % text})
    ck.coverage.update({
        "evaluations": in_domain,
        "generated_cases": len(cases),
        "in_domain_by_kind": tag_in, "generated_by_kind": tag_total,
        "distinct_nontrivial": len(nontriv),
        "rule": "a case is an instruction (or script) plus rendering choices; the text is render_script (extracted); only cases with "
                "extracted wf && valid = true are evaluated (= the domain of C01_line / C01_script); the implementation's parse_text "
                "result must equal the rendered instructions numbered from 1. Exhaustive: every argument string of length <= 3 over "
                "%r as single argument, quoted and unquoted, with every per-character escape choice, for %d shapes; every pair of "
                "arguments of length <= %d (total length <= 3) with every quoting/escaping choice; all 8 shapes x name sets x 5 comments x 25 lead/trail "
                "white-space pairs x 4 spacing choices x 4 argument sets x LF/CRLF/unterminated. Random: names over a wide pool incl. "
                "non-BMP, arguments of <= 40 arbitrary scalar values, <= 6 arguments, scripts of 1..%d lines with mixed LF/CRLF. "
                "Non-trivial = distinct in-domain text with at least one Script instruction"
                % ("".join(ALPH), 4 if thorough else 2, 2 if thorough else 1, 200 if thorough else 80),
        "exhaustive": True,
        "exhaustive_part": {"generated": len(exh), "in_domain": tag_in.get("exhaustive", 0)},
        "instruction_shapes(label,output,command present)": shape_hist,
        "instructions_per_text_histogram(capped at 50)": nlines_hist,
        "argument_choices(single-line cases)": argkinds,
        "samples": [dec_str(texts[len(texts) // 3])[:100], dec_str(texts[-1])[:200]],
    })
    ck.report_broken(found)
    ck.assumptions += [
        "the documented syntax is formalised by DS.Render (render_line / wf / valid); `\\$` is never produced; names contain no white space, '#' or '\\'",
        "str::lines and str::trim are modelled; the White_Space table is checked against char::is_whitespace by the C08 check",
        "the renderer run by the check is the extracted render_script, so the tested texts are exactly the theorem's domain",
    ]
