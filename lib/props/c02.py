"""C02 — variable binding is verbatim, single-pass and never changes the argument count.

Formal side: coq/props/C02.v (model Expansion.v of expand_by_wrapper / bind_command_arguments over
the shared Parser.v; spec ExpansionSpec.v: templates, render_tmpl, denote, words).
Correspondence: written arguments are *rendered by the extracted render_arg* (so the tested texts are
exactly the theorems' domain), bound by the real code (instruction built directly and run with
run_instruction; a sample also through run_script with the argument written in quotes) and compared
with the extracted model `bind_args` and the extracted specification `denote_args`.
Known-finding classes (F9 = KF-C02-1, and KF-C02-3; KF-C02-2 is repaired and in the domain) are classified by the extracted predicates of the
`known_arg` hypothesis of C02_bind; only those classes are tolerated."""
import itertools
import json
import os
import vlib
from vlib import enc_str, enc_list, dec_list, dec_str

THEOREMS = ["C02_single", "C02_spread", "C02_words", "C02_spread_words", "C02_bind", "C02_count",
            "C02_count_templates", "C02_KF1_quote_refuted", "C02_KF1_open_quote_refuted",
            "C02_hash_example", "C02_KF3_esc_pct_refuted", "C02_KF3_esc_bs_refuted", "C02_nonvacuous",
            # index-faithful model (ExpansionIx.v over ParserIx.v): explicit Panic, never taken, equals the suffix model
            "C02_ix_total", "C02_ix_refines"]
IX_THEOREMS = ["C02_ix_bind_total", "C02_ix_bind_refines"]      # props/C02ix.v

NAMES4 = ["v", "w", "a%b", ""]
NAMES = NAMES4 + ["x$y", "p\\q", "é", "n{m", "a\"b", "#h", "a.b", "1", "${v", "\\"]
ESC_OK = ["v", "", "a b"]                                   # literal text (the theorem's domain)
ESC_OK_MORE = ESC_OK + ["é", "{", "x=}", "a\"#"]
ESC_KNOWN = ["a%b", "a$b", "a\\b", "a\\$b", "%", "${v", "a%", "\\"]   # inside the property's names, not literal
LITS6 = ["a", " ", "\"", "#", "{", "}"]
LITS = LITS6 + ["a b", "=", "\n", "\t", "é", "{v}", " x ", "\r", "a\"b c\"", "😀", "\u00a0"]
VALUES = ["", " ", "  ", "a", "a b", " a  b ", "\"", "a \"b c\"", "a \"b", "\\", "a\\ b", "\\$", "#",
          "a#b c", "a #b", "\n", "a\nb c", "${v}", "${w}", "%{v}", "\\${v}", "$", "%", "é ü\u00a0x",
          "\t", "a\tb", "=", "${", "\r\n", "😀 {}", "a%b c", "a\"b", "\\\" x"]
assert len(VALUES) >= 24

KF = {
    "q": ("KF-C02-1", "%{name} with a value in which a space-separated word begins with a double quote: quotes group "
                      "words and are stripped, an unterminated quote yields one empty argument (e.g. v = 'a \"b c\"' gives [a, b c]; v = 'a \"b' gives [''])"),
    "e": ("KF-C02-3", "\\${name} with a name containing $, % or a back-slash is not left literal: a '%' flips the whole argument "
                      "to spread mode (\"x y\\${a%b}\" is received as two arguments), '\\$' inside the name loses the back-slash"),
}


def enc_env(env):
    if not env:
        return "-"
    return " ".join("%s:%s" % (enc_str(n), enc_str(v)) for n, v in env.items())


def enc_arg(a):
    if a[0] == "S":
        return "S" + enc_str(a[1])
    if not a[1]:
        return "-"
    return ",".join(k + enc_str(s) for (k, s) in a[1])


def enc_case(env, args):
    return "B\t%s\t%s" % (enc_env(env), "|".join(enc_arg(a) for a in args))


def T(*pieces):
    return ("T", list(pieces))


def S(n):
    return ("S", n)


def show(env, args):
    def sp(p):
        return {"L": "%s", "V": "${%s}", "E": "\\${%s}"}[p[0]] % p[1]
    return {"variables": env, "written": ["%{" + a[1] + "}" if a[0] == "S" else "".join(sp(p) for p in a[1]) for a in args]}


def rand_unicode(rng, n):
    out = []
    for _ in range(n):
        r = rng.random()
        if r < 0.45:
            out.append(rng.choice("ab $%{}\\\"#=\t\n\r"))
        elif r < 0.7:
            out.append(chr(rng.randint(0x20, 0x7e)))
        elif r < 0.9:
            out.append(chr(rng.choice([0xa0, 0xe9, 0x2003, 0x3000, 0x1f600, 0x10ffff, 0x85, 0x2028, 0x7f, 0x1])))
        else:
            c = rng.randint(1, 0x10ffff)
            if 0xd800 <= c <= 0xdfff:
                c = 0xe000
            out.append(chr(c))
    return "".join(out)


def lit_clean(s):
    return "".join(c for c in s if c not in "$%\\")


def fails(ck, cands):
    """indices of the candidate cases (env, args) that are in-domain and on which the implementation differs from the spec"""
    if not cands:
        return []
    lines = [enc_case(e, a) for (e, a) in cands]
    m = [o.split("\t") for o in ck.model(lines)]
    i = ck.impl(["R\t%s\t%s" % (ln.split("\t")[1], f[0]) for ln, f in zip(lines, m)])
    return [k for k, (f, o) in enumerate(zip(m, i)) if len(f) == 6 and f[3] == "T" and f[5] == "-" and o != "A" + f[2]]


def shrink(ck, env, args):
    """greedy one-step reductions (drop an argument, a piece, a variable; shorten a value) while the case still fails"""
    for _round in range(40):
        cands = []
        for k in range(len(args)):
            cands.append((env, args[:k] + args[k + 1:]))
            if args[k][0] == "T":
                ps = args[k][1]
                for j in range(len(ps)):
                    cands.append((env, args[:k] + [("T", ps[:j] + ps[j + 1:])] + args[k + 1:]))
        for n in env:
            cands.append(({m: v for m, v in env.items() if m != n}, args))
            v = env[n]
            for cut in (v[:len(v) // 2], v[len(v) // 2:], v[1:], v[:-1]):
                if cut != v:
                    cands.append(({**env, n: cut}, args))
        f = fails(ck, cands)
        if not f:
            break
        env, args = cands[f[0]]
    return env, args


def replay(ck, data):
    """bin/vcheck C02 --replay <file>: re-run the single case of a replay file on both sides"""
    ck.ocaml_build()
    ck.harness_build(["c02"])
    line = data["wire"]
    m = ck.model([line])[0].split("\t")
    i = ck.impl(["R\t%s\t%s" % (line.split("\t")[1], m[0])])[0]
    print(json.dumps(data.get("case"), ensure_ascii=False))
    print("written arguments: %r\nspecification:     %r\nmodel:             %r\nimplementation:    %s" % (
        dec_list(m[0]), dec_list(m[2]), dec_list(m[1]), repr(dec_list(i[1:])) if i.startswith("A") else i))
    print("well-formed: %s   known-finding classes: %s" % (m[3], m[5]))
    same = i == "A" + m[2]
    print("REPLAY: " + ("agree now" if same else "still disagree"))
    return 0 if same else 1


def run(ck):
    ck.gen_from_source()
    ck.coq_build(["props/C02.vo", "props/C02ix.vo", "extract/C02_extract.vo"])
    ck.print_assumptions(["DSP.C02", "DSP.C02ix"], ["DSP.C02." + t for t in THEOREMS] + ["DSP.C02ix." + t for t in IX_THEOREMS])
    ck.source_tie("expand")
    ck.source_tie("parser")
    ck.hygiene()
    ck.ocaml_build()
    ck.harness_build(["c02"])
    model_ok = not any(b.startswith("ocaml") for b in ck.broken) and os.path.exists(
        os.path.join(vlib.ROOT, "ocaml", "bin", "c02_model"))
    thorough = ck.tier == "thorough"
    rng = ck.rng
    # a class is tolerated only while the committed register lists it as an OPEN finding of this property
    open_ids = {k.get("id") for k in ck.known_db if k.get("property") == "C02" and k.get("status") == "open"}

    class _NotOpen:
        def __contains__(self, fid):
            return fid not in open_ids
    fixed = _NotOpen()

    cases = []      # (env, args, tag)
    # ---- corpus: witnesses of findings, always first -------------------------------------------------------
    witnesses = {
        "q": [({"v": "a \"b c\""}, [S("v")]), ({"v": "a \"b"}, [S("v")])],
        "e": [({}, [T(("L", "x y"), ("E", "a%b"))]), ({}, [T(("E", "a\\$b"))])],
    }
    for cls in "qe":
        for (e, a) in witnesses[cls]:
            cases.append((e, a, "witness-" + cls))
    n_wit = len(cases)
    cases.append(({"v": "  "}, [S("v")], "corpus"))                          # F10 (fixed): blank spreads to nothing
    cases.append(({"v": "a#b c"}, [S("v")], "corpus"))                       # KF-C02-2 (fixed): '#' in a spread value is data -> [a#b, c]
    cases.append(({"v": "# a", "w": "x #y#"}, [S("v"), T(("L", "k")), S("w")], "corpus"))
    cases.append(({"v": ""}, [S("v")], "corpus"))
    cases.append(({}, [S("v")], "corpus"))
    cases.append(({"v": "${v} %{v}\"\\#\n"}, [T(("L", "a"), ("V", "v"), ("E", "v"))], "corpus"))
    cases.append(({"v": "%{w}", "w": "x y"}, [T(("V", "v")), S("v")], "corpus"))
    cases.append(({}, [T()], "corpus"))
    cases.append(({}, [], "corpus"))

    # ---- exhaustive small scope ------------------------------------------------------------------------------
    pieces = [("L", s) for s in LITS6] + [("V", n) for n in NAMES4] + [("E", n) for n in ESC_OK]
    uniform_envs = [{}] + [{n: v for n in NAMES4} for v in VALUES]
    n0 = len(cases)

    def rand_env(names=NAMES4, p_undef=0.2):
        return {n: rng.choice(VALUES) for n in names if rng.random() >= p_undef}
    for k in (0, 1, 2):
        for ps in itertools.product(pieces, repeat=k):
            for e in uniform_envs:
                cases.append((e, [T(*ps)], "exh-tmpl"))
    n_rand3 = 8 if thorough else 2
    for ps in itertools.product(pieces, repeat=3):
        for e in uniform_envs:
            cases.append((e, [T(*ps)], "exh-tmpl"))
        for _ in range(n_rand3):
            cases.append((rand_env(), [T(*ps)], "exh-tmpl3"))
    # positions: the template first / in the middle / last, next to literals and spreads
    for k in (1, 2):
        for ps in itertools.product(pieces, repeat=k):
            for _ in range(3 if thorough else 1):
                e = rand_env()
                x = T(*ps)
                cases.append((e, [T(("L", "a")), x], "position"))
                cases.append((e, [x, S(rng.choice(NAMES4))], "position"))
                cases.append((e, [T(("L", "k")), x, T(("V", "w"))], "position"))
                cases.append((e, [S(rng.choice(NAMES4)), T(), x], "position"))
    # spread: every name x every pool value, alone and between other arguments
    for n in NAMES4:
        for v in VALUES:
            cases.append(({n: v}, [S(n)], "spread-pool"))
            cases.append(({n: v, "w": "z"}, [T(("L", "a")), S(n), T(("V", "w"))], "spread-pool"))
    # spread: every value over a small alphabet (the exact boundary of C02_words)
    sp_len = 8 if thorough else 6
    for k in range(1, sp_len + 1):
        for cs in itertools.product("a \"#\\", repeat=k):
            cases.append(({"v": "".join(cs)}, [S("v")], "spread-exh"))
    n_exh = len(cases) - n0
    # known class e: \${name} with a non-literal name
    for n in ESC_KNOWN:
        for pre in [None, "x", "x y", "\""]:
            for post in [None, " z", "#"]:
                ps = ([("L", pre)] if pre else []) + [("E", n)] + ([("L", post)] if post else [])
                cases.append((rand_env(), [T(*ps)], "known-e"))
    # ---- random, longer ---------------------------------------------------------------------------------------
    def rand_piece():
        r = rng.random()
        if r < 0.4:
            s = rng.choice(LITS) if rng.random() < 0.7 else lit_clean(rand_unicode(rng, rng.randint(1, 12)))
            return ("L", s)
        if r < 0.8:
            return ("V", rng.choice(NAMES))
        if r < 0.97:
            return ("E", rng.choice(ESC_OK_MORE))
        return ("E", rng.choice(ESC_KNOWN))

    def rand_value():
        r = rng.random()
        if r < 0.6:
            return rng.choice(VALUES)
        if r < 0.8:
            return " ".join(rng.choice(VALUES) for _ in range(rng.randint(2, 4)))
        return rand_unicode(rng, rng.randint(1, 30))
    for _ in range(400000 if thorough else 25000):
        e = {n: rand_value() for n in NAMES if rng.random() < 0.6}
        args = []
        for _a in range(rng.randint(1, 4)):
            if rng.random() < 0.2:
                args.append(S(rng.choice(NAMES)))
            else:
                args.append(T(*[rand_piece() for _p in range(rng.randint(0, 8))]))
        cases.append((e, args, "random"))

    lines = [enc_case(e, a) for (e, a, _) in cases]
    # raw written arguments outside the theorem's domain (information only: the property does not
    # constrain them, so a disagreement is not a violation)
    raw = []
    for _ in range(40000 if thorough else 6000):
        raw.append(({n: rand_value() for n in NAMES4 if rng.random() < 0.7},
                    ["".join(rng.choice("av$%{}\\ \"#=") for _c in range(rng.randint(1, 9))) for _a in range(rng.randint(1, 2))]))
    x_lines = ["X\t%s\t%s" % (enc_env(e), enc_list(t)) for (e, t) in raw]

    found = False
    if model_ok:
        m_out = [o.split("\t") for o in ck.model(lines)]
        bad_model = [k for k, f in enumerate(m_out) if len(f) != 6 or f[5] == "INCONSISTENT"]
        # the model column is the index-faithful binder's; PANIC / IXDIFF contradict C02_ix_bind_total / _refines
        ck.obligations.append("index-faithful binder: no Panic and equal to the suffix model on every case (C02_ix_bind_total, C02_ix_bind_refines)")
        ix_bad = [k for k, f in enumerate(m_out) if len(f) == 6 and f[1] in ("PANIC", "IXDIFF")]
        if ix_bad:
            ck.broken.append("index-faithful binder answers %s on %s" % (m_out[ix_bad[0]][1], lines[ix_bad[0]]))
        else:
            ck.discharged.append("index-faithful binder: no Panic, equal to the suffix model")
        if bad_model:
            ck.broken.append("model driver: unexpected output on %s -> %r" % (lines[bad_model[0]], m_out[bad_model[0]]))
            m_out = [f if len(f) == 6 else ["-", "-", "-", "F", "F", "-"] for f in m_out]
        r_lines = ["R\t%s\t%s" % (ln.split("\t")[1], f[0]) for ln, f in zip(lines, m_out)]
        i_out = ck.impl(r_lines)
        # the run_script route (position in a real line): all position cases and every 7th other case
        s_idx = [k for k, c in enumerate(cases) if c[2] in ("position", "corpus") or c[2].startswith("witness") or k % 7 == 0]
        s_out = ck.impl(["S" + r_lines[k][1:] for k in s_idx])
        s_map = dict(zip(s_idx, s_out))
        xm = ck.model(x_lines)
        xi = ck.impl(["R\t%s\t%s" % (ln.split("\t")[1], ln.split("\t")[2]) for ln in x_lines])
        off_agree = sum(1 for a, b in zip(xm, xi) if "A" + a == b)
        x_bad = [k for k, a in enumerate(xm) if a in ("PANIC", "IXDIFF")]
        if x_bad:      # raw texts are outside the binding theorems' domain but inside C02_ix_total's (any string)
            ck.broken.append("index-faithful binder answers %s on raw text %s" % (xm[x_bad[0]], x_lines[x_bad[0]]))
        # C02_ix_total / C02_ix_bind_total have no exceptions: a panic of the real binder on ANY written argument
        # (in-domain, known class, off-domain raw text) is a violation
        panics = [(r_lines[k], o) for k, o in enumerate(i_out) if o == "PANIC" or o.startswith("DIED")] + \
                 [("R\t%s\t%s" % (x_lines[k].split("\t")[1], x_lines[k].split("\t")[2]), b)
                  for k, b in enumerate(xi) if b == "PANIC" or b.startswith("DIED")]
        for (rl, o) in panics[:3]:
            found = True
            ck.violation({"kind": "implementation panics while binding (the index-faithful model proves no panic for any written argument)",
                          "written_arguments": dec_list(rl.split("\t")[2]), "env": rl.split("\t")[1], "implementation": o,
                          "wire": rl, "seed": ck.seed, "theorems": ["C02_ix_total", "C02_ix_bind_total"],
                          "replay_cmd": "printf '%s\\n' | .cache/cargo-target/release/c02" % rl.replace("\t", "\\t")})

        dist = {"tags": {}, "classes": {}, "spec_branch": {}, "args": {}, "pieces": {}}
        nontriv = set()
        n_domain = n_known = n_off = n_skip = n_s = 0
        known_diff = {"q": 0, "e": 0}
        known_total = {"q": 0, "e": 0}
        known_model_disagree = 0
        viol = []
        printed = set()
        for k, ((e, a, tag), f, i) in enumerate(zip(cases, m_out, i_out)):
            rendered, model, spec, wf, wflit, cls = f
            dist["tags"][tag] = dist["tags"].get(tag, 0) + 1
            dist["classes"][cls] = dist["classes"].get(cls, 0) + 1
            outs = [("run_instruction", i)]
            if k in s_map:
                if s_map[k] == "SKIP":
                    n_skip += 1
                else:
                    n_s += 1
                    outs.append(("run_script", s_map[k]))
            tolerated = cls != "-" and not any(KF[c][0] in fixed for c in cls)
            if cls != "-" and tolerated:
                n_known += 1
                for c in cls:
                    known_total[c] += 1
                    if i != "A" + spec:
                        known_diff[c] += 1
                if i != "A" + model:
                    known_model_disagree += 1
                if tag.startswith("witness") and i != "A" + spec and tag[-1] not in printed:
                    c = tag[-1]
                    printed.add(c)
                    ck.known("%s %s — witness %s" % (KF[c][0], KF[c][1], json.dumps(show(e, a), ensure_ascii=False)))
                continue
            if wf != "T" and cls == "-":
                n_off += 1
                continue
            # the theorems' domain (or a class declared fixed): spec, model and implementation must agree
            n_domain += 1
            dist["args"][len(a)] = dist["args"].get(len(a), 0) + 1
            for x in a:
                if x[0] == "T":
                    dist["pieces"][len(x[1])] = dist["pieces"].get(len(x[1]), 0) + 1
            sl = dec_list(spec)
            br = "empty-args" if not a else ("some-empty-argument" if "" in sl else "all-non-empty")
            if any(x[0] == "S" for x in a):
                br += "+spread"
            dist["spec_branch"][br] = dist["spec_branch"].get(br, 0) + 1
            subst = any((x[0] == "S" and e.get(x[1])) or (x[0] == "T" and any(p[0] == "V" and e.get(p[1]) for p in x[1])) for x in a)
            if subst:
                nontriv.add(lines[k])
            if model != spec:
                ck.broken.append("extracted model and extracted spec disagree in-domain on %s" % lines[k])
            for (route, o) in outs:
                if o != "A" + spec:
                    viol.append((len(lines[k]), k, route, o))
        viol.sort()
        seen = set()
        for (_, k, route, o) in viol:
            if k in seen:
                continue
            seen.add(k)
            found = True
            e, a, tag = cases[k]
            f = m_out[k]
            wire, rline = lines[k], r_lines[k]
            if route == "run_instruction" and len(ck.violations) < 1:
                e2, a2 = shrink(ck, e, a)
                if (e2, a2) != (e, a):
                    wire = enc_case(e2, a2)
                    f = ck.model([wire])[0].split("\t")
                    rline = "R\t%s\t%s" % (wire.split("\t")[1], f[0])
                    o = ck.impl([rline])[0]
                    e, a, tag = e2, a2, tag + " (shrunk)"
            ck.violation({"kind": "specification-vs-implementation (in-domain written arguments)", "route": route,
                          "case": show(e, a), "rendered_arguments": dec_list(f[0]), "spec_denote_args": dec_list(f[2]),
                          "model_bind_args": dec_list(f[1]), "implementation": dec_list(o[1:]) if o.startswith("A") else o,
                          "wire": wire, "generator": tag, "seed": ck.seed,
                          "theorems": ["C02_bind", "C02_single", "C02_spread_words", "C02_count"],
                          "replay_cmd": "printf '%s\\n' | .cache/cargo-target/release/c02   (or: bin/vcheck C02 --replay <this file>)" % rline.replace("\t", "\\t")})
            if len(ck.violations) >= 5:
                break
        ck.coverage.update({
            "evaluations": len(cases) + n_s + len(raw),
            "in_domain_cases": n_domain,
            "known_class_cases": n_known,
            "known_class_cases_differing_from_spec": known_diff,
            "known_class_cases_total": known_total,
            "known_class_cases_where_model_and_implementation_differ": known_model_disagree,
            "off_domain_cases_not_compared": n_off,
            "run_script_route": {"compared": n_s, "skipped_line_did_not_parse_back": n_skip},
            "off_domain_raw_texts": {"cases": len(raw), "model_agrees_with_implementation": off_agree,
                                     "note": "information only, not part of the verdict"},
            "distinct_nontrivial": len(nontriv),
            "rule": "written arguments rendered by the extracted render_arg from templates; non-trivial = distinct in-domain case "
                    "(variables, written arguments) in which at least one ${name}/%%{name} refers to a defined non-empty variable, i.e. a "
                    "value was actually substituted or spread; exhaustive part: every template of <= 3 pieces over 6 literals, 4 names, "
                    "3 escaped names under %d uniform environments (<= 2 pieces; 3 pieces: %s), every such template of <= 2 pieces in "
                    "4 argument positions, %%{name} for 4 names x %d hostile values, and %%{v} for every value of length <= %d over {a,space,\",#,\\}"
                    % (len(uniform_envs), "all uniform + %d random environments" % n_rand3, len(VALUES), sp_len),
            "exhaustive": True,
            "exhaustive_part": n_exh,
            "samples": [show(*cases[k][:2]) for k in (0, n0 + 5000, len(cases) - 1) if k < len(cases)],
            "distribution": dist,
            "model_run": "index-faithful ExpansionIx.bind_args_ix (re-parse of spread values on the index-faithful parser, explicit "
                         "Panic) — cross-checked per case against the suffix model Expansion.bind_args; also on the off-domain raw texts",
        })
    else:
        ck.coverage.update({"evaluations": 0, "distinct_nontrivial": 0, "rule": "model did not build", "samples": []})
    ck.report_broken(found)
    ck.assumptions += [
        "variables are modelled as a function str -> option str (HashMap lookup by exact key)",
        "the runner's dispatch around bind_command_arguments (run_instruction: command lookup, CommandInvocationContext) "
        "is exercised by the correspondence run, not modelled",
        "reparse errors are all mapped to ExpandedValue::None (as in the code); the error kind is not observable",
        "known-finding classes KF-C02-1 and KF-C02-3 are tolerated only while known_findings.json lists them as open findings",
    ]
