"""C09 — wrapping a command in if / elseif / while / not / an alias does not change its arguments.

Formal side: coq/props/C09.v (model EvalSer.v of eval::parse's text construction composed with the
shared Parser.v and the second binding of Expansion.v).  C09_roundtrip: for a command word, [safe]
argument values, head_ok (class E) and last_ok (class W), the rebuilt line parses and re-binds to the
same values for every variable environment.
Correspondence: a capture command is invoked directly and through if, elseif, while, not, a user alias
and a user alias with the first argument stored; the argument values travel in variables (${v0} ...) so
they reach the wrapper verbatim.  In-domain cases must be received unchanged in all positions; cases in
an unsafe class (classified by the *extracted* predicates of the theorem, not re-implemented here) are
the known findings F7 and are the only ones tolerated."""
import itertools
import json
import os
import vlib
from vlib import enc_str, enc_list, dec_list, dec_str

THEOREMS = ["C09_roundtrip", "C09_safe_simple", "C09_roundtrip_simple", "C09_rebind", "C09_Q_refuted", "C09_Q2_refuted", "C09_H_refuted", "C09_NL_refuted",
            "C09_D_refuted", "C09_P_refuted", "C09_B_refuted", "C09_E_refuted", "C09_W_refuted", "C09_nonvacuous",
            # index-faithful model (EvalSerIx.v): eval::parse over the index-faithful parser / binder, instructions[0]
            "C09_ix_total", "C09_ix_refines", "C09_ix_parse_total", "C09_ix_parse_refines", "C09_ix_parse_unguarded_refuted"]
POSITIONS = ["direct", "if", "elseif", "while", "not", "alias", "alias-with-first-argument-stored"]
CMD = "capture"
ALPHA = ["a", " ", "\"", "\\", "#", "=", "$", "%", "{", "}", "\t", "\n", "\r", "é"]

KF = {
    "N": ("F7-NL", "an argument value containing CR or LF loses them", ["a\nb"]),
    "Q": ("F7-Q", "an argument value that begins with a double quote, or contains a double quote together with a space, "
                  "is re-quoted wrongly (wrapped in back-slashes, split, or a parse error)", ["\"a\""]),
    "H": ("F7-H", "an argument value containing '#' and no space is cut at the '#'", ["a#b"]),
    "D": ("F7-D", "an argument value in which the second binding finds a reference (an active ${ or %{ closed by } before "
                  "space/TAB/CR/LF/=, or standing at the very end) is expanded again", ["${x}"]),
    "B": ("F7-B", "an argument value with an active back-slash directly before $ or % loses the back-slash", ["\\$"]),
    "P": ("F7-P", "an argument value that ends the second scan in spread mode (a % that is not the last character and "
                  "is not followed by a later $) and contains a space is re-split", ["a %b c"]),
    "E": ("F7-E", "a first argument that begins with '=' and contains no space turns the command word into an output "
                  "variable (the command is not run)", ["=x"]),
    "W": ("F7-W", "a last argument without a space that ends with a white-space character (TAB, NBSP, ...) is trimmed", ["a\t"]),
}


KF_A = ("F7-A", "a user function invoked through a user alias never returns to the caller: the function's return jumps to line 1 of "
                "the script (typically an endless loop)", "fn f / return true / end / alias g f / r = g")
KEYWORDS = ["then", "do", "end", "else", "elseif", "if", "in", "not", "and", "or", "while", "for", "fn", "return", "true", "false",
            "begin", "done", "fi", "{", "}", ";", "--", "-c", "capture", "cap9"]
PREDS2 = ["equals", "contains", "starts_with", "user function (ends_with)"]
PREDS1 = ["is_empty", "user function (is_empty)"]
PRED_POS = ["direct", "if", "elseif", "while", "not", "alias"]


def enc_env(env):
    if not env:
        return "-"
    return " ".join("%s:%s" % (enc_str(n), enc_str(v)) for n, v in env.items())


def model_line(extra, args):
    env = dict(extra)
    for k, a in enumerate(args):
        env["v%d" % k] = a
    return "C\t%s\t%s\t%s" % (enc_str(CMD), enc_env(env), enc_list(args))


def impl_line(extra, args):
    return "C\t%s\t%s" % (enc_env(extra), enc_list(args))


def expected(args):
    return "A" + enc_list(args).replace(" ", ",")


def rand_value(rng, safe_bias):
    n = rng.randint(0, 6) if rng.random() < 0.7 else rng.randint(7, 40)
    out = []
    for _ in range(n):
        r = rng.random()
        if safe_bias:
            if r < 0.55:
                out.append(rng.choice("abcxyz019_-./:,;"))
            elif r < 0.75:
                out.append(" ")
            elif r < 0.93:
                out.append(rng.choice("\\#=$}{'()[]<>!&|*?~^`@+\t"))
            elif r < 0.97:
                out.append(rng.choice("é😀\u00a0\u2003\u3000\u0085\u2028\u0001\u007f"))
            else:
                out.append(rng.choice("\"%\n\r"))
        else:
            if r < 0.6:
                out.append(rng.choice(ALPHA))
            elif r < 0.8:
                out.append(chr(rng.randint(0x20, 0x7e)))
            elif r < 0.95:
                out.append(rng.choice("é😀\u00a0\u2003\u3000\u0085\u2028\u0001\u007f\u000b\u000c"))
            else:
                c = rng.randint(1, 0x10ffff)
                out.append(chr(0xe000 if 0xd800 <= c <= 0xdfff else c))
    return "".join(out)


def outcome(ck, cands):
    """for candidate (extra, args): (in_domain, classes, model_call, [7 implementation results], all arguments safe_simple)"""
    if not cands:
        return []
    m = [o.split("\t") for o in ck.model([model_line(e, a) for e, a in cands])]
    i = ck.impl([impl_line(e, a) for e, a in cands])
    return [(f[0] == "T", f[1], f[2], r.split(" "), f[4] == "T") if len(f) == 5 else (False, "?", "?", r.split(" "), False) for f, r in zip(m, i)]


def failing(args, res):
    dom, _cls, _call, r, _simple = res
    exp = expected(args)
    return dom and any(x != exp for x in r if x != "-")


def shrink(ck, extra, args):
    for _round in range(60):
        cands = []
        for k in range(len(args)):
            cands.append((extra, args[:k] + args[k + 1:]))
            v = args[k]
            for cut in {v[:len(v) // 2], v[len(v) // 2:], v[1:], v[:-1]} | {v[:j] + v[j + 1:] for j in range(min(len(v), 12))}:
                if cut != v:
                    cands.append((extra, args[:k] + [cut] + args[k + 1:]))
        if extra:
            cands.append(({}, args))
        res = outcome(ck, cands)
        f = [k for k, (c, r) in enumerate(zip(cands, res)) if failing(c[1], r)]
        if not f:
            break
        f.sort(key=lambda k: sum(len(x) + 1 for x in cands[k][1]))
        extra, args = cands[f[0]]
    return extra, args


def replay(ck, data):
    """bin/vcheck C09 --replay <file>: re-run the single case of a replay file in all seven positions"""
    ck.ocaml_build()
    ck.harness_build(["c09"])
    extra, args = data.get("extra_variables", {}), data["arguments"]
    (dom, cls, call, r, _s), = outcome(ck, [(extra, args)])
    print("arguments=%r extra_variables=%r\nin_domain=%s classes=%s model=%s" % (args, extra, dom, cls, call))
    for p, x in zip(POSITIONS, r):
        print("  %-34s %s" % (p, x if not x.startswith("A") else dec_list(x[1:].replace(",", " "))))
    exp = expected(args)
    same = all(x == exp for x in r if x != "-")
    print("REPLAY: " + ("received unchanged in every position" if same else "still changed" + ("" if dom else " (the case is in an unsafe class: known finding)")))
    return 1 if failing(args, (dom, cls, call, r, _s)) else 0


def run(ck):
    ck.gen_from_source()
    ck.coq_build(["props/C09.vo", "extract/C09_extract.vo"])
    ck.print_assumptions(["DSP.C09"], ["DSP.C09." + t for t in THEOREMS])
    ck.source_tie("parser")
    ck.source_tie("expand")
    ck.source_tie("eval")
    ck.source_tie("smallnat")
    ck.hygiene()
    ck.ocaml_build()
    ck.harness_build(["c09"])
    model_ok = not any(b.startswith("ocaml") for b in ck.broken) and os.path.exists(
        os.path.join(vlib.ROOT, "ocaml", "bin", "c09_model"))
    thorough = ck.tier == "thorough"
    rng = ck.rng
    # a class is tolerated only while the committed register lists it as an OPEN finding of this property
    open_ids = {k.get("id") for k in ck.known_db if k.get("property") == "C09" and k.get("status") == "open"}

    class _NotOpen:
        def __contains__(self, fid):
            return fid not in open_ids
    fixed = _NotOpen()

    cases = []   # (extra env, args, tag)
    for c, (_id, _txt, w) in KF.items():
        cases.append(({"x": "X"}, list(w), "witness-" + c))
    n_wit = len(cases)
    corpus = [[], [""], ["", ""], ["a b", "c"], ["a # b"], ["a\\b", "\\"], ["\\\\ \\"], ["$x%"], ["$${x}"], ["\\\\$"], ["=\"\ta"],
              ["50%"], ["a%b"], ["${a b}"], ["%{x y"], ["x", "=y"], ["a\t", "b"], ["= x"], ["a\"b"], ["#", " "], [" # "],
              ["é\u00a0", "😀 \u2003"], ["true"], ["false"], ["(", "a", ")"], ["and", "or"], ["a=b", "c"], ["-x", "--y=1"],
              ["C:\\dir\\file.txt", "D:\\a b\\c"], ["{\"k\": 1}x"], ["a", "b", "c", "d", "e", "f", "g", "h"]]
    # values that look like syntax of the wrappers (seed C09-w5-m1: a trailing `then` / `do` dropped as an optional keyword)
    for kw in KEYWORDS:
        corpus += [[kw], ["key", kw], [kw, "key"], ["a", kw, "b"], ["key", kw.upper()], ["k v", kw]]
    for a in corpus:
        cases.append(({"x": "X", "a": "${x}"}, a, "corpus"))
    n0 = len(cases)
    # ---- exhaustive small scope --------------------------------------------------------------------------
    L3 = 3
    L4 = 5 if thorough else 4
    vals = [""]
    for k in range(1, L4 + 1):
        vals += ["".join(t) for t in itertools.product(ALPHA, repeat=k)]
    for v in vals:
        if len(v) <= L3:
            cases.append(({}, [v], "exh-single"))
            cases.append(({}, [v, "k"], "exh-first"))
            cases.append(({}, ["k", v], "exh-last"))
            cases.append(({}, ["k", v, "k k"], "exh-middle"))
        else:
            cases.append(({}, [v], "exh-single"))
            if len(v) == 4:
                cases.append(({}, ["k", v, "k"], "exh-middle"))
    short = [v for v in vals if len(v) <= 2]
    for a0 in short:
        for a1 in short:
            cases.append(({}, [a0, a1], "exh-pair"))
    one = [v for v in vals if len(v) <= 1]
    for t in itertools.product(one, repeat=3):
        cases.append(({}, list(t), "exh-triple"))
    n_exh = len(cases) - n0
    # ---- random, longer ------------------------------------------------------------------------------------
    for _ in range(150000 if thorough else 25000):
        bias = rng.random() < 0.75
        args = [rand_value(rng, bias) if rng.random() < 0.93 else rng.choice(KEYWORDS) for _a in range(rng.randint(1, 5))]
        extra = {} if rng.random() < 0.5 else {"x": rand_value(rng, False), "a": "${x}", "": "q"}
        cases.append((extra, args, "random-safe-biased" if bias else "random-hostile"))

    found = False
    if model_ok:
        res = outcome(ck, [(e, a) for (e, a, _t) in cases])
        dist = {"tags": {}, "classes_of_cases": {}, "class_letters": {}, "args": {}, "in_domain_argument_shapes": {}}
        nontriv = set()
        n_dom = n_unsafe = n_unsafe_same = n_beyond_simple = 0
        unsafe_by_letter_differs = {}
        model_agree = model_total = 0
        viol = []
        printed = set()
        harness_bad = []
        # the model call is the index-faithful model's (EvalSerIx.eval_call_ix); P = its Panic outcome, IXDIFF = it differs
        # from the suffix model: both contradict C09_ix_total / C09_ix_refines (which hold for every argument vector)
        ck.obligations.append("index-faithful eval::parse model: no Panic and equal to the suffix model on every case (C09_ix_total, C09_ix_refines)")
        ix_bad = [(cases[k][1], r_[2]) for k, r_ in enumerate(res) if r_[2] in ("P", "IXDIFF")]
        if ix_bad:
            ck.broken.append("index-faithful eval::parse model answers %s on %r" % (ix_bad[0][1], ix_bad[0][0]))
        else:
            ck.discharged.append("index-faithful eval::parse model: no Panic, equal to the suffix model")
        for k, ((extra, args, tag), (dom, cls, call, r, simple)) in enumerate(zip(cases, res)):
            dist["tags"][tag] = dist["tags"].get(tag, 0) + 1
            exp = expected(args)
            if cls in ("?", "INCONSISTENT"):
                ck.broken.append("model driver: unexpected output on %r" % (args,))
                continue
            if r[0] in ("HANG",) or r[0].startswith("DIED"):
                # the process did not answer on this case (e.g. class E under `while`: `capture = set x` assigns a truthy value
                # for ever): a difference like any other - tolerated in an open unsafe class, a violation in the domain
                r = [exp] + [r[0]] * 6
            if len(r) != 7 or r[0] != exp:
                harness_bad.append(k)
                continue
            wr = [x for x in r[1:] if x != "-"]
            same = all(x == exp for x in wr)
            # fidelity of the model on every case, safe or not (information)
            mc = call.replace(" ", ",")
            model_total += 1
            if all((x.lstrip("E") == mc) or (mc[0] in "EX" and x.startswith("E")) for x in wr):
                model_agree += 1
            tolerated = cls != "-" and not all(KF[c][0] in fixed for c in cls)
            if not dom and tolerated:
                n_unsafe += 1
                dist["classes_of_cases"][cls] = dist["classes_of_cases"].get(cls, 0) + 1
                for c in cls:
                    dist["class_letters"][c] = dist["class_letters"].get(c, 0) + 1
                if same:
                    n_unsafe_same += 1
                else:
                    for c in cls:
                        unsafe_by_letter_differs[c] = unsafe_by_letter_differs.get(c, 0) + 1
                if tag.startswith("witness") and not same and tag[-1] not in printed:
                    c = tag[-1]
                    printed.add(c)
                    first = next(p for p, x in zip(POSITIONS[1:], r[1:]) if x != exp and x != "-")
                    ck.known("%s %s — witness argument %s (first differing position: %s)" % (KF[c][0], KF[c][1], json.dumps(args[0], ensure_ascii=False), first))
                continue
            # the theorem's domain (or classes declared fixed)
            n_dom += 1
            if not simple:
                n_beyond_simple += 1
            dist["args"][len(args)] = dist["args"].get(len(args), 0) + 1
            for a in args:
                sh = "empty" if a == "" else ("quoted" if " " in a else "bare")
                dist["in_domain_argument_shapes"][sh] = dist["in_domain_argument_shapes"].get(sh, 0) + 1
            if any(a == "" or any(not (ch.isascii() and ch.isalnum()) for ch in a) for a in args):
                nontriv.add(enc_list(args))
            if dom and mc != exp:
                ck.broken.append("extracted model disagrees with C09_roundtrip in-domain on %r" % (args,))
            if not same:
                viol.append((sum(len(a) + 1 for a in args), k))
        viol.sort()
        for (_, k) in viol[:5]:
            found = True
            extra, args, tag = cases[k]
            if len(ck.violations) < 1:
                e2, a2 = shrink(ck, extra, args)
                if (e2, a2) != (extra, args):
                    extra, args, tag = e2, a2, tag + " (shrunk)"
            (dom, cls, call, r, _s), = outcome(ck, [(extra, args)])
            ck.violation({"kind": "argument values changed by a wrapper (in-domain: every argument safe, head_ok, last_ok)",
                          "arguments": args, "extra_variables": extra, "classes": cls,
                          "received": {p: (dec_list(x[1:].replace(",", " ")) if x.startswith("A") else x) for p, x in zip(POSITIONS, r)},
                          "model_call": call, "generator": tag, "seed": ck.seed,
                          "theorems": ["C09_roundtrip", "C09_rebind"],
                          "wire": impl_line(extra, args),
                          "replay_cmd": "printf '%s\\n' | .cache/cargo-target/release/c09   (or: bin/vcheck C09 --replay <this file>)" % impl_line(extra, args).replace("\t", "\\t")})
        # ---- real predicates: the branch taken / the alias result is the one the direct call determines ----------
        pcases = []
        short1 = [v for v in vals if len(v) <= 1]
        for a0 in short1:
            pcases.append([a0])
            for a1 in short1:
                pcases.append([a0, a1])
        for v in vals:
            if len(v) == 2:
                pcases.append([v])
                pcases.append([v, v])
                pcases.append([v + "x", v])
                pcases.append(["x" + v, v])
        for _ in range(20000 if thorough else 3000):
            a0 = rand_value(rng, True)
            r = rng.random()
            if r < 0.25:
                pcases.append([a0])
            elif r < 0.5 and a0:
                i0 = rng.randint(0, len(a0) - 1)
                pcases.append([a0, a0[i0:rng.randint(i0, len(a0))]])
            elif r < 0.7:
                pcases.append([a0, a0])
            else:
                pcases.append([a0, rand_value(rng, True)])
        pm = [o.split("\t") for o in ck.model([model_line({}, a) for a in pcases])]
        pi = ck.impl(["P\t-\t%s" % enc_list(a) for a in pcases])
        p_dom = p_unsafe = p_true = p_false = 0
        pviol = []
        for a, f, o in zip(pcases, pm, pi):
            if len(f) != 5:
                continue
            tolerated = f[1] != "-" and not all(KF[c][0] in fixed for c in f[1])
            if f[0] != "T" and tolerated:
                p_unsafe += 1
                continue
            p_dom += 1
            words = o.split(" ")
            names = PREDS2 if len(a) == 2 else PREDS1
            for nm, w in zip(names, words):
                letters = [x for x in w if x != "-"]
                if letters and letters[0] == "T":
                    p_true += 1
                elif letters and letters[0] == "F":
                    p_false += 1
                if len(words) != len(names) or not letters or letters[0] not in "TF" or any(x != letters[0] for x in letters):
                    pviol.append((sum(len(x) + 1 for x in a), a, nm, w))
        pviol.sort(key=lambda t: t[0])
        for (_, a, nm, w) in pviol[:max(0, 5 - len(ck.violations))]:
            found = True
            ck.violation({"kind": "the branch taken / alias result differs from the direct call's output (in-domain arguments)",
                          "predicate": nm, "arguments": a, "extra_variables": {},
                          "outcome_per_position": dict(zip(PRED_POS, w)), "seed": ck.seed,
                          "theorems": ["C09_roundtrip"], "wire": "P\t-\t%s" % enc_list(a),
                          "replay_cmd": "printf 'P\\t-\\t%s\\n' | .cache/cargo-target/release/c09" % enc_list(a)})
        # ---- F7-A: an alias of a user function (run apart, under a short time limit: it does not return) ----------
        fa_status = "not run"
        if KF_A[0] not in fixed:
            try:
                o = ck.impl(["PA\t-\t%s" % enc_list(["a"])], timeout=10)[0]
                fa_status = "returned " + o
                if o != "FF":
                    ck.known("%s %s — witness: %s (outcome direct/alias: %s)" % (KF_A[0], KF_A[1], KF_A[2], o))
            except Exception as ex:   # subprocess.TimeoutExpired
                fa_status = "did not return within 10 s"
                ck.known("%s %s — witness: %s (no result within 10 s)" % (KF_A[0], KF_A[1], KF_A[2]))
        else:
            o = ck.impl(["PA\t-\t%s" % enc_list(["a"])], timeout=30)[0]
            fa_status = "returned " + o
            if o != "FF":
                found = True
                ck.violation({"kind": "a user function invoked through an alias does not give the direct call's result (F7-A is marked fixed)",
                              "witness": KF_A[2], "outcome": o, "seed": ck.seed})
        if harness_bad:
            k = harness_bad[0]
            found = True
            ck.violation({"kind": "the direct call did not receive the argument values verbatim (harness premise, C02)",
                          "arguments": cases[k][1], "extra_variables": cases[k][0], "received": res[k][3], "seed": ck.seed,
                          "wire": impl_line(cases[k][0], cases[k][1])})
        # alias HISTORY: alias base -> capture A ; alias derived -> base B ; unalias base ; alias base -> capture C ; derived x..
        # must reach the command exactly like the direct `base B x..` at that moment: [C, B, x..] (safe values only: the
        # re-serialisation classes are the subject of the streams above)
        ah_words = ["A", "B", "C", "x", "yy", "a b", "2.0", "k=v", "-f", "é"]
        ah = []
        for _ in range(400 if thorough else 60):
            ah.append([rng.choice(ah_words) for _ in range(rng.randint(4, 6))])
        ah_out = ck.impl(["AH\t-\t%s" % enc_list(a) for a in ah])
        for a, o in zip(ah, ah_out):
            want = expected([a[2], a[1]] + a[3:])
            got = o.split(" ")
            if got != [want, want]:
                found = True
                if len(ck.violations) < 5:
                    ck.violation({"kind": "alias history: an alias defined on top of an alias that was removed and defined again does "
                                          "not pass the arguments of the direct invocation",
                                  "script": ["alias base9 capture %s" % a[0], "alias derived9 base9 %s" % a[1], "unalias base9",
                                             "alias base9 capture %s" % a[2], "derived9 " + " ".join(a[3:])],
                                  "expected (direct call `base9 %s ..`)" % a[1]: want, "received (direct, through the alias chain)": got,
                                  "theorems": ["C09_roundtrip"], "seed": ck.seed, "wire": "AH\t-\t%s" % enc_list(a)})
        # call HISTORY: the wrapped call comes after other lines of the SAME run (one context, one state): earlier wrapped calls
        # whose argument values join to the same text with other boundaries (seed C05-w5-m2: parsed condition lines cached under
        # the joined values), the same written call with other values, and many failing evaluations (seed C09-w5-m2: a nesting
        # counter leaked by every "command not found" inside an evaluation).  In-domain argument values only; expected = the
        # values, in all six positions, whatever ran before.
        hw = ["a", "b", "cc", "x.y", "k=v", "-f", "é", "2", "then", "do", "true", "0"]
        ch = []
        for _ in range(2500 if thorough else 400):
            words = [rng.choice(hw) for _ in range(rng.randint(2, 5))]

            def split(ws):
                out, cur = [], [ws[0]]
                for w in ws[1:]:
                    if rng.random() < 0.5:
                        cur.append(w)
                    else:
                        out.append(" ".join(cur))
                        cur = [w]
                return out + [" ".join(cur)]
            args = split(words)
            extra, lines = {}, []
            kind = rng.choice(["join", "join", "fail", "fail", "same", "mixed"])
            if kind in ("join", "mixed"):
                for j in range(rng.randint(1, 3)):
                    other = split(words)
                    refs = []
                    for o in other:
                        nm = "p%d" % len(extra)
                        extra[nm] = o
                        refs.append("${%s}" % nm)
                    w = rng.choice(["if capture %s\nend", "q9 = not capture %s", "while capture %s\nend", "alias pre9 capture\npre9 %s",
                                    "q9 = eval capture %s", "capture %s"])
                    lines.append(w % " ".join(refs))
            if kind in ("fail", "mixed"):
                n_fail = rng.choice([1, 3, 15, 16, 17, 29, 30, 31, 32, 33, 40, 64, 70, 130])
                for j in range(n_fail):
                    lines.append(rng.choice(["q9 = not ghost9", "q9 = eval ghost9 x", "q9 = not ghost9 ${v0}", "alias dang9 ghost9\nq9 = dang9"]))
            if kind == "same":
                for j in range(rng.randint(1, 2)):
                    lines.append("sv9 = set ${v0}\nv0 = set %s\n%s\nv0 = set ${sv9}" % (
                        rng.choice(["other", "\"o t\"", "z"]),
                        rng.choice(["if capture%s\nend", "q9 = not capture%s", "while capture%s\nend"]) % "".join(" ${v%d}" % i for i in range(len(args)))))
            ch.append((extra, args, "\n".join(lines) + "\n", kind))
        chm = [o.split("\t") for o in ck.model([model_line(e, a) for (e, a, _p, _k) in ch])]
        cho = ck.impl(["CH\t%s\t%s\t%s" % (enc_env(e), enc_list(a), enc_str(pfx)) for (e, a, pfx, _k) in ch])
        ch_dom = 0
        ch_kinds = {}
        for (extra, args, pfx, kind), f, o in zip(ch, chm, cho):
            if len(f) != 5 or f[0] != "T":
                continue
            ch_dom += 1
            ch_kinds[kind] = ch_kinds.get(kind, 0) + 1
            want = expected(args)
            got = o.split(" ")
            if got != [want] * 6:
                found = True
                if len(ck.violations) < 5:
                    ck.violation({"kind": "call history: after earlier lines of the same run, a wrapped call does not pass the argument values "
                                          "of the direct call (in-domain values)",
                                  "earlier_lines": pfx.split("\n"), "arguments": args, "extra_variables": extra,
                                  "expected_in_every_position": want, "received": dict(zip(POSITIONS[:6], got)),
                                  "theorems": ["C09_roundtrip"], "seed": ck.seed,
                                  "wire": "CH\t%s\t%s\t%s" % (enc_env(extra), enc_list(args), enc_str(pfx))})
        ck.coverage.update({
            "call_history_cases": {"cases": len(ch), "in_domain": ch_dom, "by_kind": ch_kinds},
            "evaluations": len(cases) * 7 + len(pcases) * 20 + len(ah) * 2 + ch_dom * 6,
            "cases": len(cases),
            "in_domain_cases": n_dom,
            "in_domain_cases_outside_the_simple_syntactic_classes": n_beyond_simple,
            "unsafe_class_cases": n_unsafe,
            "unsafe_class_cases_received_unchanged_anyway": n_unsafe_same,
            "unsafe_class_cases_differing_by_class_letter": unsafe_by_letter_differs,
            "model_agrees_with_implementation_all_positions": {"cases": model_total, "agree": model_agree,
                                                               "note": "includes the unsafe classes; information only"},
            "predicate_cases": {"cases": len(pcases), "in_domain": p_dom, "unsafe_class_not_compared": p_unsafe,
                                "predicate_runs_true": p_true, "predicate_runs_false": p_false,
                                "predicates": PREDS2 + PREDS1, "positions": PRED_POS,
                                "alias_of_user_function": fa_status},
            "distinct_nontrivial": len(nontriv),
            "rule": "each case is run in 7 positions (direct, if, elseif, while, not, alias, alias with the first argument stored); "
                    "non-trivial = distinct in-domain argument list with at least one argument that is empty or contains a character "
                    "outside [A-Za-z0-9]; exhaustive part: every value of length <= %d over the 14-character alphabet "
                    "{a space \" \\ # = $ %% { } TAB LF CR é} as the only / first / last / middle argument, length %s as the only and the middle "
                    "argument, every pair of values of length <= 2, every triple of length <= 1" % (L3, "4" if not thorough else "4-5 (5: only)"),
            "exhaustive": True,
            "exhaustive_part": n_exh,
            "samples": [cases[k][1] for k in (0, n0 + 1000, len(cases) - 1)],
            "distribution": dist,
        })
    else:
        ck.coverage.update({"evaluations": 0, "distinct_nontrivial": 0, "rule": "model did not build", "samples": []})
    ck.report_broken(found)
    ck.assumptions += [
        "that if / elseif / while / not reach eval::parse through condition::eval_condition -> eval_with_instructions, and alias commands "
        "through eval_with_error with stored ++ actual arguments, is established by the correspondence run in those seven positions, not by a model of the flow-control commands",
        "the command word is a registered command name made of characters other than white space, #, =, back-slash and double quote, not beginning with ':' or '!' (is_cmd)",
        "include directives cannot occur (the rebuilt line never begins with '!' for such a command word)",
        "the unsafe classes N Q H D B P E W (and F7-A, alias of a user function) are tolerated only while known_findings.json lists them as open findings",
        "real predicates (equals, contains, starts_with, is_empty, two user functions) are sampled; the full argument comparison uses a capture command",
    ]
