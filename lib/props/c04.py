"""C04 — if / elseif / else / while / for-in are properly nested structured blocks.

Formal side: coq/props/C04.v (flat machine Flow.v = the Rust flow-control commands + runner line
counter; FlowTree.v = structured programs, `compile`, tree-walking interpreter `tree_run`;
scanner lemma `find_own_end`; regenerated keyword tables with `tables_wf`).
Correspondence: programs are generated as trees, compiled by the *extracted* `compile` (so the
script text is the theorem's domain), run by the extracted `tree_run` (spec) and the extracted flat
machine (model), and the script text is run on the real SDK with harness commands `emit` / `next`.
Compared: emit trace, final variables (arrays by content), and the cached block tables of
Context.state (if/while/for meta_info, end table) which the property's observe_at names."""
import itertools
import os
import vlib
from vlib import enc_str as E, enc_list, dec_list, dec_str

THEOREMS = ["C04_tables", "C04_find_own_end", "C04_steps_det", "C04_sim", "C04_program", "C04_program_unique",
            "C04_for_elements", "C04_nonvacuous"]


# ---- trees -> prefix notation ---------------------------------------------------------------------
def t_cond(c):
    if c[0] == "!":
        return ["!"] + t_cond(c[1])
    return [c[0], E(c[1])]


def t_prim(p):
    k = p[0]
    if k == "E":
        return ["E", E(p[1]), str(len(p[2]))] + [E(v) for v in p[2]]
    if k == "A":
        return ["A", E(p[1]), str(len(p[2]))] + [E(v) for v in p[2]]
    if k in ("S", "C", "P"):
        return [k, E(p[1]), E(p[2])]
    return ["0"]


def t_block(b):
    out = ["["]
    for s in b:
        out += t_stmt(s)
    return out + ["]"]


def t_stmt(s):
    k = s[0]
    if k == "c":
        return ["c"] + t_prim(s[1])
    if k == "i":
        _, sp, c, b, els, e = s
        out = ["i", E(sp)] + t_cond(c) + t_block(b)
        closed = False
        for el in els:
            if el[0] == "ei":
                out += ["ei", E(el[1])] + t_cond(el[2]) + t_block(el[3])
            else:
                out += ["el", E(el[1])] + t_block(el[2])
                closed = True
        if not closed:
            out += ["n"]
        return out + [E(e)]
    if k == "w":
        _, sp, c, b, e = s
        return ["w", E(sp)] + t_cond(c) + t_block(b) + [E(e)]
    _, sp, x, hv, b, e = s
    return ["f", E(sp), E(x), E(hv)] + t_block(b) + [E(e)]


def stats(b, d=0, acc=None):
    """construct counts / depth of a tree (measured input distribution)"""
    if acc is None:
        acc = {"if": 0, "elseif": 0, "else": 0, "while": 0, "for": 0, "cmd": 0, "depth": 0, "empty_blocks": 0}
    acc["depth"] = max(acc["depth"], d)
    if not b and d > 0:
        acc["empty_blocks"] += 1
    for s in b:
        if s[0] == "c":
            acc["cmd"] += 1
        elif s[0] == "i":
            acc["if"] += 1
            stats(s[3], d + 1, acc)
            for el in s[4]:
                acc["elseif" if el[0] == "ei" else "else"] += 1
                stats(el[-1], d + 1, acc)
        elif s[0] == "w":
            acc["while"] += 1
            stats(s[3], d + 1, acc)
        else:
            acc["for"] += 1
            stats(s[4], d + 1, acc)
    return acc


# ---- exhaustive skeletons --------------------------------------------------------------------------
SHAPES = ["if", "ife", "iei", "ieie", "while", "for"]
BODIES = {"if": 1, "ife": 2, "iei": 2, "ieie": 3, "while": 1, "for": 1}


def forests(n, d):
    """all ordered forests of constructs with exactly n nodes and depth <= d; node = (shape, [forest..])"""
    if n == 0:
        return [[]]
    if d == 0:
        return []
    out = []
    for first in range(1, n + 1):          # size of the first tree
        for t in trees(first, d):
            for rest in forests(n - first, d):
                out.append([t] + rest)
    return out


_TREES = {}


def trees(n, d):
    key = (n, d)
    if key in _TREES:
        return _TREES[key]
    out = []
    for sh in SHAPES:
        k = BODIES[sh]
        for split in compositions(n - 1, k):
            bodies = [forests(m, d - 1) for m in split]
            for combo in itertools.product(*bodies):
                out.append((sh, list(combo)))
    _TREES[key] = out
    return out


def compositions(n, k):
    if k == 1:
        return [(n,)]
    return [(i,) + r for i in range(n + 1) for r in compositions(n - i, k - 1)]


class Namer:
    def __init__(self):
        self.n = 0

    def tag(self):
        self.n += 1
        return "t%d" % self.n


def skeleton_block(forest, T, nm, loopvars):
    """canonical spelling (first alias, generic end); all conditions read the one script `c`;
    an emit at the start of every body and after every construct makes the path visible"""
    b = []
    for (sh, bodies) in forest:
        def body(k, extra=()):
            return [("c", ("E", nm.tag(), list(extra)))] + skeleton_block(bodies[k], T, nm, loopvars)
        if sh in ("if", "ife", "iei", "ieie"):
            els = []
            if sh in ("iei", "ieie"):
                els.append(("ei", T["elseif"][0], ("N", "c"), body(1)))
            if sh == "ife":
                els.append(("el", T["else"][0], body(1)))
            if sh == "ieie":
                els.append(("el", T["else"][0], body(2)))
            b.append(("i", T["if"][0], ("N", "c"), body(0), els, "end"))
        elif sh == "while":
            b.append(("w", T["while"][0], ("N", "c"), body(0), "end"))
        else:
            v = "v%d" % len(loopvars)
            loopvars.append(v)
            b.append(("f", T["for"][0], v, "h", body(0, (v,)), "end"))
        b.append(("c", ("E", nm.tag(), [])))
    return b


# ---- compound conditions --------------------------------------------------------------------------
# Statements over one atom X that have the truth value of X under the documented and-of-ors grouping (theorem C06_eval): the
# block commands must take the same branch whether the condition is written `X` or as one of these (seed C04-w6-m2: an early
# `true` at the operand after a passed `or` made `if true or x and false` run the if body instead of the elseif body).
COMPOUND = ["true or false and X", "X or false and true", "( X )", "false or ( X and true )", "X and true or false",
            "false or X", "true and X", "( true or false ) and ( X or X )", "X or X and X"]


def _and_of_ors(tokens):
    runs, cur = [], []
    for t in tokens:
        if t == "and":
            runs.append(cur)
            cur = []
        elif t != "or":
            cur.append(t)
    runs.append(cur)
    return all(any(a == "true" for a in run) for run in runs)


def _flat(text, x):
    """truth value of a compound form (groups evaluated first)"""
    import re
    t = text.replace("X", x)
    while "(" in t:
        t = re.sub(r"\( ([^()]*) \)", lambda m: "true" if _and_of_ors(m.group(1).split()) else "false", t)
    return _and_of_ors(t.split())


assert all(_flat(c, "true") is True and _flat(c, "false") is False for c in COMPOUND)


# ---- random programs -------------------------------------------------------------------------------
SAFE_VALUES = ["x", "yes", "1", "0", "no", "NO", "False", "abc", "T", "F", "00", "n0", "q"]


class Gen:
    def __init__(self, rng, T, safe_values):
        self.rng = rng
        self.T = T
        self.vals = safe_values

    def program(self, max_instr, max_depth):
        rng = self.rng
        self.budget = rng.randint(3, max_instr)
        self.nconds = 0
        self.scripts = {}
        self.arrays = []        # variables holding arrays (created at the top so that they always exist)
        self.vars = ["a", "b", "g"]
        self.ntag = 0
        pre = []
        for k in range(rng.randint(0, 3)):
            h = "h%d" % k
            n = rng.choice([0, 0, 1, 2, 3, 4])
            pre.append(("c", ("A", h, [rng.choice(self.vals) + str(j) for j in range(n)])))
            self.arrays.append(h)
            self.budget -= 1
        shared = rng.random() < 0.3
        self.shared = shared
        body = self.block(max_depth, 0, in_for=False, top=True)
        if shared:
            self.scripts["c"] = "".join(rng.choice("TF") for _ in range(rng.randint(0, 14)))
        init = []
        for k, v in sorted(self.scripts.items()):
            init += [k, v]
        init += ["kf", "false", "kt", "yes"]     # two constants for conditions (never assigned by a program)
        return pre + body, init

    def cond_var(self):
        if self.shared:
            return "c"
        self.nconds += 1
        n = "c%d" % self.nconds
        r = self.rng
        self.scripts[n] = "".join(r.choice("TTF") for _ in range(r.choice([0, 1, 1, 2, 2, 3, 4, 6])))
        return n

    def cond(self, loop):
        r = self.rng
        if loop:
            if r.random() < 0.08:
                return ("V", "kf")                 # a loop that is never entered
            return ("N", self.cond_var())          # terminates: the script runs out
        x = r.random()
        if x < 0.12:
            c = ("V", r.choice(["kt", "kf"]))      # a constant: written as a compound and / or statement in a third of the cases
            return ("!", c) if r.random() < 0.3 else c
        if x < 0.55:
            return ("N", self.cond_var())
        if x < 0.70:
            return ("!", ("N", self.cond_var()))
        if x < 0.85:
            return ("V", r.choice(self.vars + list(self.scripts.keys()) + ["undefined"]))
        if x < 0.95:
            return ("!", ("V", r.choice(self.vars + ["undefined"])))
        return ("!", ("!", ("N", self.cond_var())))

    def sp(self, key):
        return self.rng.choice(self.T[key])

    def prim(self, in_for):
        r = self.rng
        x = r.random()
        self.ntag += 1
        if x < 0.5:
            vs = [r.choice(self.vars + ["undefined"]) for _ in range(r.choice([0, 0, 1, 1, 2]))]
            return ("E", "e%d" % self.ntag, vs)
        if x < 0.65:
            return ("S", r.choice(self.vars[:3]), r.choice(self.vals))
        if x < 0.75:
            return ("C", r.choice(self.vars[:3]), r.choice(self.vars + ["undefined"]))
        if x < 0.85 and self.arrays and not in_for:
            return ("P", r.choice(self.arrays), r.choice(self.vals))
        if x < 0.90:
            return ("0",)
        return ("E", "e%d" % self.ntag, [])

    def block(self, depth, level, in_for, top=False):
        r = self.rng
        out = []
        n = r.choice([0, 1, 1, 2, 2, 3, 4]) if not top else r.randint(1, 8)
        for _ in range(n):
            if self.budget <= 0:
                break
            x = r.random()
            if depth == 0 or x < 0.45:
                self.budget -= 1
                out.append(("c", self.prim(in_for)))
            elif x < 0.72:
                self.budget -= 2
                b = self.block(depth - 1, level + 1, in_for)
                els = []
                for _ in range(r.choice([0, 0, 0, 1, 1, 2, 3])):
                    self.budget -= 1
                    els.append(("ei", self.sp("elseif"), self.cond(False), self.block(depth - 1, level + 1, in_for)))
                if r.random() < 0.45:
                    self.budget -= 1
                    els.append(("el", self.sp("else"), self.block(depth - 1, level + 1, in_for)))
                out.append(("i", self.sp("if"), self.cond(False), b, els, self.sp("close_if")))
            elif x < 0.86:
                self.budget -= 2
                c = self.cond(True)
                out.append(("w", self.sp("while"), c, self.block(depth - 1, level + 1, in_for), self.sp("close_while")))
            else:
                self.budget -= 2
                v = "v%d" % level
                if v not in self.vars:
                    self.vars.append(v)
                hv = r.choice(self.arrays + ["undefined"]) if self.arrays else "undefined"
                out.append(("f", self.sp("for"), v, hv, self.block(depth - 1, level + 1, True), self.sp("close_for")))
        return out


# ---- the check -------------------------------------------------------------------------------------
def case_line(tree, init):
    return "P\t%s\t%s" % (enc_list(init), " ".join(t_block(tree)))


def split_result(r):
    """'OK|T:..|V:..|IF:..' -> (trace+vars part, caches part)"""
    parts = r.split("|")
    return "|".join(parts[:3]), "|".join(parts[3:])


def drop_foreign(io):
    """the cached tables of OTHER line contexts (entries the harness marks `?<key>`: the private blocks of script-implemented SDK
    commands that ran on the same state) are not the program's: dropped before the comparison"""
    parts = io.split("|")
    for j in range(3, len(parts)):
        if ":" in parts[j]:
            name, rest = parts[j].split(":", 1)
            parts[j] = name + ":" + ",".join(x for x in rest.split(",") if x and not x.startswith("?"))
    return "|".join(parts)


def judge(wf, spec, model, io, sdkcalls=False):
    """None when the case agrees, else a description of the disagreement"""
    if sdkcalls and io.startswith("OK"):
        io = drop_foreign(io)
    if wf != "T":
        return "generated program is outside the theorem's domain (wf = F)"
    if spec.startswith("OK") and model.startswith("OK"):
        if split_result(model)[0] != spec:
            return "extracted model and extracted spec (tree_run) disagree"
        if io != model:
            mi, ci = split_result(model), split_result(io)
            if not io.startswith("OK"):
                return "implementation stopped (%s) where the structured semantics runs to the end" % io
            if mi[0] != ci[0]:
                return "trace / final variables differ from the tree-walking interpreter"
            return "cached block tables differ from the model's"
        return None
    if spec == "ERR" or spec == "FUEL" or model == "FUEL":
        return None    # array_push on a variable that holds no array / divergence: outside the compared domain
    return "spec is %s but the flat machine %s" % (spec[:10], model[:30])


def variants(b):
    """smaller blocks: one statement removed, or a construct replaced by one of its bodies"""
    for k in range(len(b)):
        yield b[:k] + b[k + 1:]
    for k, s in enumerate(b):
        if s[0] == "i":
            yield b[:k] + s[3] + b[k + 1:]
            for j, el in enumerate(s[4]):
                yield b[:k] + el[-1] + b[k + 1:]
                yield b[:k] + [("i", s[1], s[2], s[3], s[4][:j] + s[4][j + 1:], s[5])] + b[k + 1:]
                for v in variants(el[-1]):
                    yield b[:k] + [("i", s[1], s[2], s[3], s[4][:j] + [el[:-1] + (v,)] + s[4][j + 1:], s[5])] + b[k + 1:]
            for v in variants(s[3]):
                yield b[:k] + [("i", s[1], s[2], v, s[4], s[5])] + b[k + 1:]
        elif s[0] == "w":
            yield b[:k] + s[3] + b[k + 1:]
            for v in variants(s[3]):
                yield b[:k] + [("w", s[1], s[2], v, s[4])] + b[k + 1:]
        elif s[0] == "f":
            for v in variants(s[4]):
                yield b[:k] + [("f", s[1], s[2], s[3], v, s[5])] + b[k + 1:]


def shrink(ck, tree, init, budget=150):
    """greedy: keep any smaller tree on which model / spec / implementation still disagree"""
    def failing(t):
        mo = ck.model([case_line(t, init)], timeout=60)[0].split("\t")
        if len(mo) != 4:
            return None
        io = ck.impl(["R\t%s\t%s" % (mo[0], enc_list(init))], timeout=120)[0]
        return (mo, io) if judge(mo[1], mo[2], mo[3], io) else None
    best, res = tree, None
    progress = True
    while progress and budget > 0:
        progress = False
        for v in variants(best):
            budget -= 1
            if budget <= 0:
                break
            r = failing(v)
            if r:
                best, res, progress = v, r, True
                break
    return best, res


def run(ck):
    ck.gen_from_source()
    ck.obligations.append("generated tables: GenFlowNames.v regenerated from the flow-control sources")
    if not any(b.startswith("gen_from_source") for b in ck.broken):
        ck.discharged.append("generated tables")
    ok, _ = ck.coq_build(["props/C04.vo", "extract/C04_extract.vo"])
    ck.print_assumptions(["DSP.C04"], ["DSP.C04." + t for t in THEOREMS])
    ck.source_tie("findcmds")
    ck.source_tie("flowfor")
    ck.source_tie("flowwhile")
    ck.source_tie("flowfn")
    ck.source_tie("flowif")
    ck.source_tie("smallnat")
    ck.flow_tables_standin()
    ck.hygiene()
    ck.ocaml_build()
    ck.harness_build(["c04"])
    exe = os.path.join(vlib.ROOT, "ocaml", "bin", "c04_model")
    model_ok = not any(b.startswith("ocaml") for b in ck.broken) and os.path.exists(exe)
    thorough = ck.tier == "thorough"
    rng = ck.rng
    found = False
    if not model_ok:
        ck.coverage.update({"evaluations": 0, "distinct_nontrivial": 0, "rule": "model did not build", "samples": []})
        ck.report_broken(found)
        return

    # the spelling tables come from the regenerated sources, through the extracted model
    tl = ck.model(["TABLES"])[0]
    T = {}
    for kv in tl.split("|"):
        k, v = kv.split("=", 1)
        T[k] = dec_list(v) if k != "wf" else v
    ck.obligations.append("tables_wf computes to true on the regenerated tables (extracted)")
    if T["wf"] == "T":
        ck.discharged.append("tables_wf (extracted)")
    else:
        ck.broken.append("tables_wf computes to false on the regenerated tables")
    # every spelling must run the command it is a spelling of in the loaded SDK
    canon = {"if": "If", "elseif": "ElseIf", "else": "Else", "endif": "EndIf", "while": "While",
             "endwhile": "EndWhile", "for": "ForIn", "endfor": "EndForIn"}
    names, want = [], []
    for k, suffix in canon.items():
        full = [n for n in T[k] if n.endswith("::" + suffix)]
        for n in T[k]:
            names.append(n)
            want.append(full[0] if full else "?missing-full-name")
    names += ["end", "emit", "next", "set", "array", "array_push", "not"] + SAFE_VALUES + ["undefined"]
    reg = dec_list(ck.impl(["REG\t" + enc_list(names)])[0])
    ck.obligations.append("registry: every spelling of the generated tables runs its command in the loaded SDK")
    bad_reg = [(n, w, g) for n, w, g in zip(names, want, reg) if w != g]
    if bad_reg or reg[len(want)] != "end":
        ck.broken.append("registry disagrees with GenFlowNames: %s" % bad_reg[:3])
    else:
        ck.discharged.append("registry")
    safe_values = [v for v, g in zip(names[len(want) + 7:], reg[len(want) + 7:]) if g == "?" and v != "undefined"]

    cases = []    # (kind, tree, init)
    # 0. corpus: F5 witness (full names of elseif / else), spelled canonically
    full = {k: [n for n in T[k] if "::" in n][0] for k in canon}
    cases.append(("corpus", [("i", full["if"], ("N", "c"), [("c", ("E", "a", []))],
                              [("ei", full["elseif"], ("N", "c"), [("c", ("E", "b", []))]),
                               ("el", full["else"], [("c", ("E", "d", []))])], full["endif"]),
                             ("c", ("E", "z", []))], ["c", "FT"]))
    cases.append(("corpus", [("i", full["if"], ("N", "c"), [("c", ("E", "a", []))],
                              [("el", full["else"], [("c", ("E", "d", []))])], "end")], ["c", "F"]))
    # 1. every spelling of every keyword, one construct at a time
    for so in T["if"]:
        for sc in T["close_if"]:
            for sei in T["elseif"]:
                for sel in T["else"]:
                    for script in ("T", "FT", "FF"):
                        cases.append(("spelling", [("i", so, ("N", "c"), [("c", ("E", "a", []))],
                                                     [("ei", sei, ("N", "c"), [("c", ("E", "b", []))]),
                                                      ("el", sel, [("c", ("E", "d", []))])], sc),
                                                    ("c", ("E", "z", []))], ["c", script]))
    for so in T["while"]:
        for sc in T["close_while"]:
            cases.append(("spelling", [("w", so, ("N", "c"), [("c", ("E", "a", []))], sc), ("c", ("E", "z", []))], ["c", "TTF"]))
    for so in T["for"]:
        for sc in T["close_for"]:
            cases.append(("spelling", [("c", ("A", "h", ["p", "q"])), ("f", so, "v", "h", [("c", ("E", "a", ["v"]))], sc),
                                        ("c", ("E", "z", []))], []))
    # long inner loops: a loop nested in a loop / in a taken branch keeps its own state however many iterations the inner loop
    # makes (seed C04-w7-m1: the while call stack was capped at 256 entries by dropping the OLDEST ones - the enclosing loop's
    # entry - so the outer loop ended silently after one pass over an inner loop of 256+ iterations)
    for n_inner in (200, 300, 600):
        for outer in ("w", "f", "i"):
            inner = [("w", T["while"][0], ("N", "ci"), [("c", ("E", "in", []))], "end")]
            body = [("c", ("E", "top", [])), ("c", ("S", "ci", "T" * n_inner))] + inner + [("c", ("E", "after", ["ci"]))]
            if outer == "w":
                prog = [("w", T["while"][0], ("N", "c"), body, "end")]
            elif outer == "f":
                prog = [("c", ("A", "h", ["p", "q", "r"])), ("f", T["for"][0], "v", "h", body, "end")]
            else:
                prog = [("i", T["if"][0], ("N", "c"), body, [("el", T["else"][0], [("c", ("E", "never", []))])], "end")]
            cases.append(("spelling", prog + [("c", ("E", "z", []))], ["c", "TTT", "ci", ""]))
    n_spelling = len(cases)
    # 2. every skeleton with <= N constructs, depth <= 3, under every boolean script of length L
    n_constr = 4 if thorough else 3
    script_len = 5
    scripts = ["".join(p) for p in itertools.product("TF", repeat=script_len)] + ["", "T", "TT"]
    skel_count = {"skeletons": 0, "cases": 0}
    g = Gen(rng, T, safe_values or ["x"])

    def stage_b():
        for n in range(1, n_constr + 1):
            for forest in forests(n, 3):
                skel_count["skeletons"] += 1
                loopvars = []
                blk = [("c", ("A", "h", ["p", "q"]))] + skeleton_block(forest, T, Namer(), loopvars)
                nconds = sum(1 for tok in t_block(blk) if tok == "N")
                for sc in scripts:
                    # a script longer than needed only changes the left-over: keep all for <= 2 conditions,
                    # otherwise only the full-length ones
                    if len(sc) < script_len and nconds > 2:
                        continue
                    skel_count["cases"] += 1
                    yield ("skeleton", blk, ["c", sc])
        # 2b. "sdkcall": k empty lines, then one construct on line k.  For the implementation the empty lines are written as
        # calls of an SDK command that is itself a script with for / if / while on its own lines 2, 3 and 11 (join_path), run on the
        # SAME Context.state under another line context: the block tables of the user's construct are the user's, whatever ran
        # before on an equal line number (seed C04-w5-m2: a last-block memo that ignored the line context)
        for k_ in range(0, 15):
            pad = [("c", ("0",))] * k_
            for sc in ("T", "F", "TF", "FT", "TTF", "FF"):
                yield ("sdkcall", pad + [("i", T["if"][0], ("N", "c"), [("c", ("E", "a", []))],
                                          [("ei", T["elseif"][0], ("N", "c"), [("c", ("E", "b", []))]), ("el", T["else"][0], [("c", ("E", "d", []))])], "end"),
                                         ("c", ("E", "z", []))], ["c", sc])
                yield ("sdkcall", pad + [("i", T["if"][0], ("N", "c"), [("c", ("E", "a", []))], [], "end"), ("c", ("E", "z", []))], ["c", sc])
                yield ("sdkcall", pad + [("w", T["while"][0], ("N", "c"), [("c", ("E", "a", []))], "end"), ("c", ("E", "z", []))], ["c", sc])
            yield ("sdkcall", [("c", ("A", "h", ["p", "q"]))] + pad + [("f", T["for"][0], "v", "h", [("c", ("E", "a", ["v"]))], "end"),
                                                                       ("c", ("E", "z", []))], [])
        # 3. random programs
        for _ in range(60000 if thorough else 15000):
            tree, init = g.program(60, rng.choice([1, 2, 3, 4, 5, 5]))
            yield ("random", tree, init)

    nontriv = set()
    dist = {"kinds": {}, "model_outcomes": {}, "constructs": {}, "depth": {}, "instructions": {}, "trace_len": {},
            "repetition": {}, "cached_blocks": {}}
    samples = []
    counters = {"eval": 0, "found": False}

    def evaluate(cases):
        lines = [case_line(t, i) for (_, t, i) in cases]
        m_out = ck.model(lines, timeout=900)
        impl_lines, idx, sdk_flags = [], [], []
        for k, o in enumerate(m_out):
            f = o.split("\t")
            if len(f) != 4:
                ck.broken.append("model driver: bad output %r on case %d" % (o[:80], k))
                continue
            idx.append(k)
            sdk_flags.append(False)
            if cases[k][0] == "sdkcall" or (cases[k][0] == "random" and k % 3 == 0):
                sdk_flags[-1] = True
                # empty lines written as calls of a script-implemented SDK command without output variable (no visible effect)
                f[0] = enc_list([l if l != "" else "join_path a b" for l in dec_list(f[0])])
            elif cases[k][0] == "random" and k % 3 == 1:
                # the constants kt / kf in condition position written as compound and / or statements of the same truth value
                f[0] = enc_list([l.replace("${kt}", COMPOUND[(k + j) % len(COMPOUND)].replace("X", "${kt}"))
                                  .replace("${kf}", COMPOUND[(k + 2 * j) % len(COMPOUND)].replace("X", "${kf}"))
                                 for j, l in enumerate(dec_list(f[0]))])
            impl_lines.append("R\t%s\t%s" % (f[0], enc_list(cases[k][2])))
        i_out = ck.impl(impl_lines, timeout=900)
        # a HANG verdict (CPU-time fuse of the harness) is confirmed with a five times longer fuse
        # before it is believed; if the first one is not confirmed all of them are re-run that way
        hangs = [pos for pos, o in enumerate(i_out) if o == "HANG"]
        if hangs:
            def rerun(positions):
                import subprocess
                exe_i = os.path.join(vlib.CARGO_TARGET, "release", "c04")
                env = dict(os.environ, VERIF_C04_FUSE_MS="20000")
                r = subprocess.run([exe_i], input="\n".join(impl_lines[q] for q in positions) + "\n", env=env,
                                   stdout=subprocess.PIPE, stderr=subprocess.PIPE, text=True, timeout=1500)
                return r.stdout.split("\n")[:len(positions)]
            first = rerun(hangs[:1])
            if first and first[0] != "HANG":
                i_out[hangs[0]] = first[0]
                for q, o in zip(hangs[1:], rerun(hangs[1:])):
                    i_out[q] = o
        for pos, (k, io) in enumerate(zip(idx, i_out)):
            kind, tree, init = cases[k]
            text, wf, spec, model = m_out[k].split("\t")
            counters["eval"] += 1
            dist["kinds"][kind] = dist["kinds"].get(kind, 0) + 1
            oc = model.split("|")[0].split(" ")[0]
            dist["model_outcomes"][oc] = dist["model_outcomes"].get(oc, 0) + 1
            st = stats(tree)
            ncon = st["if"] + st["while"] + st["for"]
            script_lines = dec_list(text)
            for key, val in (("constructs", ncon), ("depth", st["depth"]), ("instructions", len(script_lines) // 10 * 10)):
                dist[key][val] = dist[key].get(val, 0) + 1
            if spec.startswith("OK") and model.startswith("OK"):
                tr = model.split("|")[1]
                tl_ = min(len(tr[2:].split(";")) if tr != "T:" else 0, 50) // 5 * 5
                dist["trace_len"][tl_] = dist["trace_len"].get(tl_, 0) + 1
                if ncon >= 1:
                    nontriv.add((text, tuple(init)))
                tags = [e.split(",")[0] for e in tr[2:].split(";")] if tr != "T:" else []
                reps = max([tags.count(t) for t in set(tags)] or [0])
                key = "a block ran %s" % ("0 times (no emit)" if reps == 0 else "once at most" if reps == 1 else
                                           "2-3 times" if reps <= 3 else "4+ times")
                dist["repetition"][key] = dist["repetition"].get(key, 0) + 1
                ncache = sum(1 for part in model.split("|")[3:6] for x in part.split(":", 1)[1].split(",") if x)
                dist["cached_blocks"][min(ncache, 10)] = dist["cached_blocks"].get(min(ncache, 10), 0) + 1
            bad = judge(wf, spec, model, io, sdk_flags[pos])
            if bad and len(ck.violations) < 5 and kind in ("random", "skeleton") and not sdk_flags[pos]:
                # shrink: report the smallest program found that still disagrees
                small, res = shrink(ck, tree, init)
                if res:
                    (text, wf, spec, model), io = res
                    tree, script_lines = small, dec_list(text)
                    bad = judge(wf, spec, model, io) + " (shrunk)"
                    impl_lines[pos] = "R\t%s\t%s" % (text, enc_list(init))
            if bad:
                counters["found"] = True
                if len(ck.violations) < 5:
                    ck.violation({
                        "kind": bad, "case_kind": kind, "script": dec_list(impl_lines[pos].split("\t")[1]), "initial_variables": init,
                        "script_of_the_model": script_lines,
                        "tree_prefix": " ".join(t_block(tree)),
                        "spec(tree_run)": spec, "model(flat machine)": model, "implementation": io,
                        "theorems": ["C04_sim", "C04_program", "C04_find_own_end", "C04_tables"], "seed": ck.seed,
                        "replay_cmd": "printf '%s\\n' | .cache/cargo-target/release/c04" % impl_lines[pos].replace("\t", "\\t"),
                    })
            elif len(samples) < 4 and kind in ("skeleton", "random") and ncon >= 2 and (k % 997 == 0 or kind == "random" and len(samples) < 2):
                samples.append({"script": script_lines, "init": init})

    # stage A: corpus and spellings; stage B (skipped when A already failed: a mutant that makes
    # every loop hang would otherwise cost seconds per case): skeletons and random programs
    evaluate(cases[:n_spelling])
    if not counters["found"]:
        chunk = []
        for cse in stage_b():
            chunk.append(cse)
            if len(chunk) >= 150000:
                evaluate(chunk)
                chunk = []
                if counters["found"]:
                    break
        if chunk and not counters["found"]:
            evaluate(chunk)
    # stage C: malformed stream — a compiled random program with one line deleted, replaced by a
    # generic end, or swapped with its successor.  Off the theorem's domain, so only what the model
    # reproduces faithfully is compared: a run to the end must agree completely; the first Error is
    # compared by line, a Crash by kind (after an Error the real runner goes on, the model stops).
    n_mal = 0
    mal_dist = {}
    if not counters["found"]:
        mal = []
        for _ in range(30000 if thorough else 4000):
            tree, init = g.program(40, rng.choice([1, 2, 3, 4]))
            mal.append((tree, init, rng.choice("dddees"), rng.randint(0, 60)))
        mlines = ["M\t%s\t%s\t%s\t%d" % (enc_list(i), " ".join(t_block(t)), op, k) for (t, i, op, k) in mal]
        mm = ck.model(mlines, timeout=900)
        ok_idx = [k for k, o in enumerate(mm) if len(o.split("\t")) == 2]
        ii = ck.impl(["R\t%s\t%s" % (mm[k].split("\t")[0], enc_list(mal[k][1])) for k in ok_idx], timeout=900)
        for k, io in zip(ok_idx, ii):
            text, model = mm[k].split("\t")
            n_mal += 1
            cls = model.split("|")[0].split(" ")[0] if model.startswith("OK") else " ".join(model.split(" ")[::2])
            mal_dist[cls] = mal_dist.get(cls, 0) + 1
            bad = None
            if model.startswith("OK"):
                if io != model:
                    bad = "malformed program: the flat machine runs to the end but the implementation differs"
            elif model.startswith("STOP"):
                _, l, kindm = model.split(" ")
                if kindm.startswith("Crash"):
                    if not io.startswith("CRASH"):
                        bad = "malformed program: the model crashes (block end not found) at line %s, the implementation does not" % l
                elif kindm.startswith("Error"):
                    if not (io.startswith("CRASH") or io.startswith("ERROR %s " % l)):
                        bad = "malformed program: first error expected at line %s" % l
                else:
                    bad = "malformed program: the model reports %s" % kindm
            if bad:
                counters["found"] = True
                if len(ck.violations) < 5:
                    ck.violation({"kind": bad, "case_kind": "malformed", "script": dec_list(text),
                                  "initial_variables": mal[k][1], "model(flat machine)": model, "implementation": io,
                                  "theorems": ["(off-domain: model fidelity only)"], "seed": ck.seed,
                                  "replay_cmd": "printf 'R\\t%s\\t%s\\n' | .cache/cargo-target/release/c04" % (text, enc_list(mal[k][1]))})
    # stage D: deep-junk probe (finding F26: pop_call_info_for_line recursed once per stale entry,
    # so a long loop inside an if-with-else overflows the Rust stack at the else line).  Implementation
    # only, expectation known by construction; run only once the finding is registered: tolerated
    # while it is open, required to pass once it is recorded as fixed.
    kf = [k for k in ck.known_db if k.get("id") in ("F26", "KF-C04-1")]
    probe = "not run (F26 not registered in known_findings.json)"
    if kf and not counters["found"]:
        n_it = 60000
        script = ["r = range 0 %d" % n_it, "if true", "for i in ${r}", "if true", "end", "end", "else", "emit no", "end", "emit done"]
        out = ck.impl(["R\t%s\t-" % enc_list(script)], timeout=600)[0]
        good = out.startswith("OK|T:%s|" % E("done"))
        probe = "ran: %s" % (out[:40])
        if not good:
            if str(kf[0].get("status", "")).startswith("open"):
                ck.known("F26 a %d-iteration loop inside an if-with-else aborts at the else line (%s)" % (n_it, out[:30]))
            else:
                counters["found"] = True
                ck.violation({"kind": "deep-junk probe: the structured semantics runs to the end (trace: done)",
                              "script": script, "implementation": out, "finding": "F26", "seed": ck.seed,
                              "replay_cmd": "printf 'R\\t%s\\t-\\n' | .cache/cargo-target/release/c04" % enc_list(script)})
    found = counters["found"]
    n_eval = counters["eval"] + n_mal

    ck.coverage.update({
        "evaluations": n_eval,
        "distinct_nontrivial": len(nontriv),
        "rule": "distinct (script text, initial variables) with at least one block construct on which spec and model "
                "both run to the end (trace, final variables and cached block tables then compared with the real SDK); "
                "exhaustive part: every spelling of every keyword for single constructs, every forest of <= %d constructs "
                "(if, if-else, if-elseif, if-elseif-else, while, for) of depth <= 3 under every boolean script of length %d "
                "read by all conditions; random part: programs of <= 60 instructions, depth <= 5, random spellings, "
                "next / ${var} / not conditions, arrays of 0-4 elements, empty blocks, blank lines" % (n_constr, script_len),
        "exhaustive": True,
        "exhaustive_part": {"spelling_cases": n_spelling, "skeletons": skel_count["skeletons"], "skeleton_cases": skel_count["cases"],
                            "scripts_per_skeleton": len(scripts)},
        "samples": samples,
        "distribution": dist,
        "malformed_stream": {"cases": n_mal, "model_outcomes": mal_dist},
        "deep_junk_probe": probe,
        "spellings": {k: v for k, v in T.items() if k != "wf"},
    })
    ck.report_broken(found)
    ck.assumptions += [
        "no function calls in C04 programs: line_context_name is constantly empty and omitted from the model's call-stack entries and cache keys",
        "conditions and straight-line commands are the small language of Flow.v (next / ${var} / not; emit, set, array, array_push); "
        "their fidelity to the SDK is sampled by this run, the general condition evaluator is C06/C09's subject",
        "the registry lookup name -> command is modelled by membership in the regenerated name tables (checked against the loaded SDK on every run)",
        "values used in ${var} conditions are not command names or condition keywords (generator-restricted)",
        "call stacks are not compared (only the state named in observe_at: trace, variables, cached block tables)",
        "the model's call stacks and its pops are unbounded lists / structural recursion: the depth of the Rust recursion in "
        "pop_call_info_for_line (one frame per stale entry) is not modelled (finding F26, repaired in /repo: the pops are loops now; the deep-junk probe of this check guards it)",
    ]
