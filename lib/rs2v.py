"""rs2v — a small Rust-to-Gallina translator for the scanner-style functions of duckscript.

It understands a deliberately small subset of Rust (enough for the hand-rolled state machines the
properties are anchored in: `let [mut]`, assignments, `+= 1` / `-= 1`, `String::push / push_str /
clear`, `if / else if / else`, `if let Some(x) = ..`, `match` on Option / Result / unit enums,
`for x in a..b`, `for c in s.chars()`, `break`, `return`, calls of other translated functions with
`&mut String` parameters, comparisons and boolean operators) and refuses everything else with
Rs2vError — it never guesses.  The result is an ordinary Gallina term built by symbolic execution of
the statement list:

  * every mutable local becomes a component of an explicit state; a loop body becomes a function
    from the state (and the loop item) to `step state` (SContinue / SBreak / SFail / SPanic);
  * every Rust operation that can unwind is explicit: `v[i]` is `nth_error` with SPanic / IPanic on
    None, `i -= 1` on usize is `usize_dec` with panic on 0;
  * `if` duplicates the continuation into both branches (the functions are small), so the output is
    a decision tree whose leaves are states / results.

The *shape* of the generated term (which record a state is packed into, how Rust constructors are
spelled) is given by a per-function configuration, so that the generated function has the same
type as the hand-written model function it is proved equal to (lib/gen/core_gen.py)."""
import re


class Rs2vError(Exception):
    pass


# ---------------------------------------------------------------------------------------------
# lexer
TOK = re.compile(r"""
    (?P<ws>\s+|//[^\n]*|/\*.*?\*/)
  | (?P<char>'(?:\\.|[^'\\])')
  | (?P<str>"(?:\\.|[^"\\])*")
  | (?P<num>\d+)
  | (?P<id>[A-Za-z_][A-Za-z0-9_]*!?)
  | (?P<op>::|->|=>|==|!=|<=|>=|&&|\|\||\+=|-=|\.\.|[{}()\[\];,.:=<>!&+\-*|])
""", re.S | re.X)

ESC = {"n": "\n", "r": "\r", "t": "\t", "\\": "\\", '"': '"', "'": "'", "0": "\0"}


def unescape(body):
    out, i = [], 0
    while i < len(body):
        c = body[i]
        if c == "\\":
            i += 1
            if body[i] not in ESC:
                raise Rs2vError("unsupported escape \\%s" % body[i])
            out.append(ESC[body[i]])
        else:
            out.append(c)
        i += 1
    return "".join(out)


def lex(src):
    pos, toks = 0, []
    while pos < len(src):
        m = TOK.match(src, pos)
        if not m:
            raise Rs2vError("cannot tokenise at: %r" % src[pos:pos + 30])
        pos = m.end()
        k = m.lastgroup
        if k == "ws":
            continue
        t = m.group(k)
        if k == "char":
            toks.append(("char", unescape(t[1:-1])))
        elif k == "str":
            toks.append(("str", unescape(t[1:-1])))
        elif k == "num":
            toks.append(("num", int(t)))
        elif k == "id":
            toks.append(("id", t))
        else:
            toks.append(("op", t))
    toks.append(("eof", None))
    return toks


# ---------------------------------------------------------------------------------------------
# parser (expressions with precedence climbing; blocks; statements)
class P:
    def __init__(self, toks):
        self.t, self.i = toks, 0

    def peek(self, k=0):
        return self.t[self.i + k]

    def at(self, kind, val=None):
        a = self.t[self.i]
        return a[0] == kind and (val is None or a[1] == val)

    def eat(self, kind, val=None):
        a = self.t[self.i]
        if a[0] != kind or (val is not None and a[1] != val):
            raise Rs2vError("expected %s %r, found %r" % (kind, val, a))
        self.i += 1
        return a[1]

    def opt(self, kind, val=None):
        if self.at(kind, val):
            self.i += 1
            return True
        return False

    # ---- types are skipped, not interpreted
    def skip_type(self):
        depth = 0
        while True:
            a = self.peek()
            if a[0] == "eof":
                raise Rs2vError("eof in type")
            if a[0] == "op" and a[1] in ("<", "(", "["):
                depth += 1
            elif a[0] == "op" and a[1] in (">", ")", "]"):
                if depth == 0:
                    return
                depth -= 1
            elif a[0] == "op" and a[1] in (",", "=", ";", "{") and depth == 0:
                return
            self.i += 1

    def fn(self):
        """fn name(params) [-> type] block  — returns (name, [(pname, is_mut_ref)], block)"""
        while not self.at("id", "fn"):
            self.i += 1          # pub, pub(crate) ...
        self.eat("id", "fn")
        name = self.eat("id")
        if self.opt("op", "<"):
            raise Rs2vError("generic fn %s" % name)
        self.eat("op", "(")
        params = []
        while not self.at("op", ")"):
            self.opt("id", "mut")
            pn = self.eat("id")
            self.eat("op", ":")
            mut_ref = self.at("op", "&") and self.peek(1) == ("id", "mut")
            self.skip_type()
            params.append((pn, mut_ref))
            self.opt("op", ",")
        self.eat("op", ")")
        if self.opt("op", "->"):
            self.skip_type()
        return name, params, self.block()

    def block(self):
        self.eat("op", "{")
        stmts, tail = [], None
        while not self.at("op", "}"):
            s = self.stmt()
            if s[0] == "tail":
                tail = s[1]
                if not self.at("op", "}"):
                    raise Rs2vError("expression without ';' in the middle of a block")
            else:
                stmts.append(s)
        self.eat("op", "}")
        return ("block", stmts, tail)

    def stmt(self):
        if self.at("id", "let"):
            self.i += 1
            mut = self.opt("id", "mut")
            name = self.eat("id")
            if self.opt("op", ":"):
                self.skip_type()
            self.eat("op", "=")
            e = self.expr()
            self.eat("op", ";")
            return ("let", name, e)
        if self.at("id", "break"):
            self.i += 1
            self.eat("op", ";")
            return ("break",)
        if self.at("id", "return"):
            self.i += 1
            e = None if self.at("op", ";") else self.expr()
            self.opt("op", ";")
            return ("return", e)
        if self.at("id", "for"):
            self.i += 1
            pat = self.eat("id")
            self.eat("id", "in")
            it = self.expr(no_struct=True)
            b = self.block()
            return ("for", pat, it, b)
        e = self.expr()
        if self.at("op", "=") or self.at("op", "+=") or self.at("op", "-="):
            op = self.eat("op")
            r = self.expr()
            if not self.opt("op", ";"):
                if not self.at("op", "}"):
                    raise Rs2vError("assignment not followed by ';' or '}'")
            return ("assign", e, op, r)
        if self.opt("op", ";"):
            return ("expr", e)
        if e[0] in ("if", "iflet", "match", "block") and not self.at("op", "}"):
            return ("expr", e)           # block-like expression statement
        return ("tail", e)

    PREC = [("||",), ("&&",), ("==", "!=", "<", ">", "<=", ">="), ("..",), ("+", "-"), ("*",)]

    def expr(self, lvl=0, no_struct=False):
        if lvl == len(self.PREC):
            return self.unary(no_struct)
        l = self.expr(lvl + 1, no_struct)
        while self.peek()[0] == "op" and self.peek()[1] in self.PREC[lvl]:
            op = self.eat("op")
            r = self.expr(lvl + 1, no_struct)
            l = ("bin", op, l, r)
        return l

    def unary(self, no_struct):
        if self.opt("op", "!"):
            return ("not", self.unary(no_struct))
        if self.opt("op", "&"):
            self.opt("id", "mut")
            return ("ref", self.unary(no_struct))
        if self.opt("op", "*"):
            return self.unary(no_struct)
        return self.postfix(self.atom(no_struct))

    def args(self, close):
        a = []
        while not self.at("op", close):
            a.append(self.expr())
            if not self.opt("op", ","):
                break
        self.eat("op", close)
        return a

    def postfix(self, e):
        while True:
            if self.opt("op", "("):
                e = ("call", e, self.args(")"))
            elif self.opt("op", "["):
                ix = self.expr()
                self.eat("op", "]")
                e = ("index", e, ix)
            elif self.at("op", ".") and self.peek(1)[0] == "id":
                self.i += 1
                n = self.eat("id")
                if self.opt("op", "("):
                    e = ("mcall", e, n, self.args(")"))
                else:
                    e = ("field", e, n)
            else:
                return e

    def atom(self, no_struct):
        a = self.peek()
        if a[0] == "char":
            self.i += 1
            return ("char", a[1])
        if a[0] == "str":
            self.i += 1
            return ("str", a[1])
        if a[0] == "num":
            self.i += 1
            return ("num", a[1])
        if a == ("op", "("):
            self.i += 1
            if self.opt("op", ")"):
                return ("tuple", [])
            e = self.expr()
            if self.opt("op", ","):
                items = [e] + self.args(")")
                return ("tuple", items)
            self.eat("op", ")")
            return e
        if a == ("op", "{"):
            return self.block()
        if a[0] == "id":
            if a[1] == "if":
                self.i += 1
                if self.opt("id", "let"):
                    pat = self.pattern()
                    self.eat("op", "=")
                    e = self.expr(no_struct=True)
                    b = self.block()
                    el = self.else_part()
                    return ("iflet", pat, e, b, el)
                c = self.expr(no_struct=True)
                b = self.block()
                return ("if", c, b, self.else_part())
            if a[1] == "match":
                self.i += 1
                e = self.expr(no_struct=True)
                self.eat("op", "{")
                arms = []
                while not self.at("op", "}"):
                    pat = self.pattern()
                    self.eat("op", "=>")
                    if self.at("id", "return") or self.at("id", "break"):
                        s = self.stmt_in_arm()
                        body = ("block", [s], None)
                    else:
                        body = self.expr()
                        if self.at("op", "=") or self.at("op", "+=") or self.at("op", "-="):
                            op = self.eat("op")
                            r = self.expr()
                            body = ("block", [("assign", body, op, r)], None)
                    self.opt("op", ",")
                    arms.append((pat, body))
                self.eat("op", "}")
                return ("match", e, arms)
            if a[1] in ("true", "false"):
                self.i += 1
                return ("bool", a[1] == "true")
            if a[1].endswith("!"):
                self.i += 1
                close = {"(": ")", "[": "]"}[self.eat("op")]
                return ("macro", a[1][:-1], self.args(close))
            self.i += 1
            path = [a[1]]
            while self.at("op", "::"):
                self.i += 1
                path.append(self.eat("id"))
            return ("path", path)
        raise Rs2vError("unexpected token %r" % (a,))

    def stmt_in_arm(self):
        if self.at("id", "break"):
            self.i += 1
            return ("break",)
        self.eat("id", "return")
        return ("return", self.expr())

    def else_part(self):
        if not self.opt("id", "else"):
            return None
        if self.at("id", "if"):
            e = self.atom(False)
            return ("block", [], e)
        return self.block()

    def pattern(self):
        a = self.peek()
        if a == ("id", "_"):
            self.i += 1
            return ("wild",)
        if a[0] in ("char", "str", "num"):
            self.i += 1
            return (a[0], a[1])
        self.opt("id", "ref")
        path = [self.eat("id")]
        while self.opt("op", "::"):
            path.append(self.eat("id"))
        sub = []
        if self.opt("op", "("):
            while not self.at("op", ")"):
                self.opt("id", "ref")
                self.opt("id", "mut")
                if self.opt("id", "_"):
                    sub.append(None)
                else:
                    sub.append(self.eat("id"))
                self.opt("op", ",")
            self.eat("op", ")")
        return ("ctor", path, sub)


def parse_fn(src, name):
    m = re.search(r"(?:pub(?:\([a-z]+\))?\s+)?fn\s+%s\s*\(" % re.escape(name), src)
    if not m:
        raise Rs2vError("fn %s not found" % name)
    p = P(lex(src[m.start():]))
    n, params, body = p.fn()
    return params, body


# ---------------------------------------------------------------------------------------------
# symbolic execution to Gallina
def coq_char(c):
    return "%d%%N" % ord(c)


def coq_str_lit(s):
    return "[" + ";".join("%d%%N" % ord(c) for c in s) + "]"


class Ty:
    """variable kinds the executor knows how to operate on"""
    BOOL, NAT, NUM_N, CHAR, STR, STR_REV, OPAQUE, INT_Z = "bool", "nat", "N", "char", "str", "str_rev", "opaque", "Z"


class Fn:
    """configuration + executor for one Rust function.

    cfg keys:
      params      {rust name: (type, coq term)}      parameters (immutable)
      locals      {rust name: type}                  every `let mut` the function declares
      state       (ctor_fmt, [rust names in field order], {rust name: projection fmt})  how the loop state is packed:
                  ctor_fmt % tuple(terms), projection fmt % state_var
      ctors       {rust path string: coq fmt}        constructors of results / errors, e.g. 'Ok': 'IOk %s'
      returns     'value' | ...                      how `return e` / tail values are wrapped: cfg['wrap_ok'](term)
      step        dict(cont=, brk=, fail=, panic=)   spellings of the loop-step constructors
      res         dict(ok=, err_match=, panic=)      how a loop result is consumed
      helpers     {rust fn name: (coq name, [param kinds])}  other translated functions callable from here
      methods     {(type, method): handler}          extra method translations
    """

    def __init__(self, cfg):
        self.cfg = cfg
        self.fresh = 0
        self.loops = []          # generated loop-body definitions: (name, text)

    def newvar(self, base):
        self.fresh += 1
        return "%s_%d" % (base, self.fresh)

    # ---- types
    def type_of(self, e, env):
        k = e[0]
        if k == "path" and len(e[1]) == 1:
            n = e[1][0]
            if n in env:
                return env[n][0]
            raise Rs2vError("unknown variable %s" % n)
        if k == "char":
            return Ty.CHAR
        if k == "str":
            return Ty.STR
        if k == "bool" or k == "not":
            return Ty.BOOL
        if k == "num":
            return None
        if k == "bin":
            if e[1] in ("||", "&&", "==", "!=", "<", ">", "<=", ">="):
                return Ty.BOOL
            return self.type_of(e[2], env) or self.type_of(e[3], env)
        if k == "ref":
            return self.type_of(e[1], env)
        if k == "mcall":
            r = self.cfg.get("method_types", {}).get(e[2])
            if r:
                return r
            if e[2] in ("is_empty", "is_none", "is_some"):
                return Ty.BOOL
            if e[2] in ("to_string", "clone", "to_owned"):
                return self.type_of(e[1], env)
            if e[2] == "len":
                return Ty.NAT
        if k == "call" and e[1][0] == "path":
            h = self.cfg.get("helpers", {}).get(e[1][1][-1])
            if h:
                return h.get("ret")
        raise Rs2vError("cannot type %r" % (e,))

    # ---- pure expressions -> coq term (string).  Partial operations are NOT allowed here.
    def ex(self, e, env):
        k = e[0]
        if k == "path":
            if len(e[1]) == 1 and e[1][0] in env:
                return env[e[1][0]][1]
            name = "::".join(e[1])
            if name in self.cfg.get("ctors", {}):
                f = self.cfg["ctors"][name]
                if "%s" in f:
                    raise Rs2vError("constructor %s needs arguments" % name)
                return f
            raise Rs2vError("unknown name %s" % name)
        if k == "char":
            return coq_char(e[1])
        if k == "bool":
            return "true" if e[1] else "false"
        if k == "str":
            return coq_str_lit(e[1])
        if k == "not":
            return "(negb %s)" % self.ex(e[1], env)
        if k == "ref":
            return self.ex(e[1], env)
        if k == "tuple":
            return "(" + ", ".join(self.ex(x, env) for x in e[1]) + ")"
        if k == "macro" and e[1] == "vec" and not e[2]:
            return "[]"
        if k == "bin":
            op, l, r = e[1], e[2], e[3]
            if op == "||":
                return "(%s || %s)" % (self.ex(l, env), self.ex(r, env))
            if op == "&&":
                return "(%s && %s)" % (self.ex(l, env), self.ex(r, env))
            tl = self.type_of(l, env) if l[0] != "num" else None
            tr = self.type_of(r, env) if r[0] != "num" else None
            t = tl or tr
            if t is None:
                raise Rs2vError("comparison of two literals")
            a, b = self.num(l, t, env), self.num(r, t, env)
            if op in ("==", "!="):
                eqb = {Ty.CHAR: "N.eqb", Ty.NUM_N: "N.eqb", Ty.NAT: "Nat.eqb", Ty.BOOL: "Bool.eqb",
                       Ty.STR: "str_eqb", Ty.INT_Z: "Z.eqb"}.get(t)
                if not eqb:
                    raise Rs2vError("== on type %s" % t)
                s = "(%s %s %s)" % (eqb, a, b)
                return s if op == "==" else "(negb %s)" % s
            cmp_ = {("<", Ty.NAT): "Nat.ltb %s %s", ("<=", Ty.NAT): "Nat.leb %s %s", (">", Ty.NAT): "Nat.ltb %s %s",
                    (">=", Ty.NAT): "Nat.leb %s %s", ("<", Ty.NUM_N): "N.ltb %s %s", (">", Ty.NUM_N): "N.ltb %s %s",
                    ("<=", Ty.NUM_N): "N.leb %s %s", (">=", Ty.NUM_N): "N.leb %s %s",
                    ("<", Ty.INT_Z): "Z.ltb %s %s", (">", Ty.INT_Z): "Z.ltb %s %s",
                    ("<=", Ty.INT_Z): "Z.leb %s %s", (">=", Ty.INT_Z): "Z.leb %s %s"}.get((op, t))
            if cmp_:
                x, y = (a, b) if op in ("<", "<=") else (b, a)
                return "(" + cmp_ % (x, y) + ")"
            if op == "+" and t == Ty.NAT:
                return "(%s + %s)%%nat" % (a, b)
            if op == "+" and t == Ty.INT_Z:
                return "(%s + %s)%%Z" % (a, b)
            if op == "-" and t == Ty.INT_Z:
                return "(%s - %s)%%Z" % (a, b)
            raise Rs2vError("operator %s on %s" % (op, t))
        if k == "mcall":
            recv, m, args = e[1], e[2], e[3]
            h = self.cfg.get("methods", {}).get(m)
            if h:
                return h(self, recv, args, env)
            t = self.type_of(recv, env)
            r = self.ex(recv, env)
            if m in ("to_string", "clone", "to_owned") and not args:
                return r
            if m == "is_empty" and t in (Ty.STR, Ty.STR_REV) and not args:
                return "(match %s with [] => true | _ => false end)" % r
            if m == "len" and not args:
                return "(length %s)" % r
            raise Rs2vError("method %s on %s" % (m, t))
        if k == "call" and e[1][0] == "path":
            name = "::".join(e[1][1])
            if name in self.cfg.get("ctors", {}):
                f = self.cfg["ctors"][name]
                return "(" + f % tuple(self.ex(a, env) for a in e[2]) + ")"
            h = self.cfg.get("helpers", {}).get(e[1][1][-1])
            if h and not h.get("mut"):
                return "(%s %s)" % (h["coq"], " ".join(self.ex(a, env) for a in e[2]))
            raise Rs2vError("call of %s in expression position" % name)
        raise Rs2vError("expression %r" % (e,))

    def num(self, e, t, env):
        if e[0] == "num":
            return {Ty.NAT: "%d%%nat", Ty.NUM_N: "%d%%N", Ty.INT_Z: "%d%%Z", Ty.CHAR: "%d%%N"}.get(t, "%d") % e[1]
        return self.ex(e, env)

    # ---- packing the loop state
    def pack(self, env):
        fmt, order, _ = self.cfg["state"]
        return fmt % tuple(self.out_term(n, env) for n in order)

    def out_term(self, n, env):
        return env[n][1]

    def unpack(self, env, sv):
        _, order, proj = self.cfg["state"]
        env = dict(env)
        for n in order:
            env[n] = (env[n][0], proj[n] % sv)
        return env

    # ---- statements.  k(env) -> coq term for "the rest"; ctx: dict(loop=bool)
    def run(self, stmts, tail, env, k, ctx):
        if not stmts:
            if tail is not None:
                return self.tail(tail, env, k, ctx)
            return k(env, None)
        s, rest = stmts[0], stmts[1:]

        def cont(env2, _v=None):
            return self.run(rest, tail, env2, k, ctx)
        return self.stmt(s, env, cont, ctx)

    def stmt(self, s, env, cont, ctx):
        k = s[0]
        if k == "let":
            return self.bind(s[1], s[2], env, cont, ctx)
        if k == "assign":
            return self.assign(s, env, cont, ctx)
        if k == "expr":
            return self.effect(s[1], env, cont, ctx)
        if k == "break":
            if not ctx.get("loop"):
                raise Rs2vError("break outside a loop")
            return self.cfg["step"]["brk"] % self.pack(env)
        if k == "return":
            return self.ret(s[1], env, ctx)
        if k == "for":
            return self.loop(s, env, cont, ctx)
        raise Rs2vError("statement %r" % (s,))

    def ret(self, e, env, ctx):
        """`return e` / a tail value of the function"""
        v = self.result_value(e, env)
        if ctx.get("loop"):
            return self.cfg["step"]["ret"](v)
        return v

    def result_value(self, e, env):
        # Ok(..)/Err(..)/enum values through cfg['ctors']; strings in results are un-reversed by the config
        if e[0] == "call" and e[1][0] == "path":
            name = "::".join(e[1][1])
            rc = self.cfg.get("result_ctors", {})
            if name in rc:
                return rc[name](self, e[2], env)
        if e[0] == "path":
            name = "::".join(e[1])
            rc = self.cfg.get("result_ctors", {})
            if name in rc:
                return rc[name](self, [], env)
        raise Rs2vError("result value %r" % (e,))

    def bind(self, name, e, env, cont, ctx):
        # partial: v[i]
        if e[0] == "index":
            vec, ix = e[1], e[2]
            v = self.newvar(name)
            env2 = dict(env)
            env2[name] = (self.cfg.get("elem_type", Ty.CHAR), v)
            panic = self.cfg["step"]["panic"] if ctx.get("loop") else self.cfg["res"]["panic"]
            return "match nth_error %s %s with\n| None => %s\n| Some %s =>\n%s\nend" % (
                self.ex(vec, env), self.ex(ix, env), panic, v, cont(env2))
        if e[0] in ("if", "match", "iflet"):
            # value-producing conditional bound to a name: only as `let x = if c {a} else {b};` with pure arms
            t = self.pure_cond(e, env)
            env2 = dict(env)
            env2[name] = (t[0], t[1])
            return cont(env2)
        if e[0] == "call" and e[1][0] == "path" and "::".join(e[1][1]) in ("String::new",):
            env2 = dict(env)
            env2[name] = (self.cfg["locals"].get(name, Ty.STR), "[]")
            return cont(env2)
        h = self.cfg.get("let_handlers", {}).get(name)
        if h:
            return h(self, e, env, cont, ctx)
        t = self.cfg["locals"].get(name) or (self.type_of(e, env) if e[0] != "num" else None)
        if t is None:
            raise Rs2vError("type of local %s unknown" % name)
        env2 = dict(env)
        env2[name] = (t, self.num(e, t, env))
        return cont(env2)

    def pure_cond(self, e, env):
        if e[0] == "if":
            c = self.ex(e[1], env)
            a, b = e[2], e[3]
            if a[1] or b is None or b[1]:
                raise Rs2vError("let x = if .. with statements")
            ta, tb = self.type_of(a[2], env), self.type_of(b[2], env)
            return (ta or tb, "(if %s then %s else %s)" % (c, self.ex(a[2], env), self.ex(b[2], env)))
        raise Rs2vError("let x = %s .." % e[0])

    def assign(self, s, env, cont, ctx):
        lhs, op, rhs = s[1], s[2], s[3]
        if lhs[0] != "path" or len(lhs[1]) != 1 or lhs[1][0] not in env:
            raise Rs2vError("assignment to %r" % (lhs,))
        n = lhs[1][0]
        t = env[n][0]
        env2 = dict(env)
        if op == "=":
            if rhs[0] == "bin" and rhs[1] in ("+", "-") and rhs[3] == ("num", 1) and t == Ty.NAT and rhs[1] == "-":
                return self.dec(n, self.ex(rhs[2], env), env, cont, ctx)
            env2[n] = (t, self.num(rhs, t, env))
            return cont(env2)
        if op == "+=" and rhs == ("num", 1) and t in (Ty.NAT, Ty.NUM_N):
            env2[n] = (t, "(S %s)" % env[n][1] if t == Ty.NAT else "(%s + 1)%%N" % env[n][1])
            return cont(env2)
        if op == "-=" and rhs == ("num", 1) and t == Ty.NAT:
            return self.dec(n, env[n][1], env, cont, ctx)
        raise Rs2vError("assignment %s %s on %s" % (n, op, t))

    def dec(self, n, term, env, cont, ctx):
        v = self.newvar(n)
        env2 = dict(env)
        env2[n] = (Ty.NAT, v)
        panic = self.cfg["step"]["panic"] if ctx.get("loop") else self.cfg["res"]["panic"]
        return "match usize_dec %s with\n| None => %s\n| Some %s =>\n%s\nend" % (term, panic, v, cont(env2))

    def effect(self, e, env, cont, ctx):
        k = e[0]
        if k == "if":
            return self.cond(e, env, cont, ctx)
        if k == "iflet":
            return self.iflet(e, env, cont, ctx)
        if k == "match":
            return self.match(e, env, cont, ctx)
        if k == "block":
            return self.run(e[1], e[2], env, lambda env2, _v=None: cont(env2), ctx)
        if k == "mcall" and e[1][0] == "path" and len(e[1][1]) == 1 and e[1][1][0] in env:
            n, m, args = e[1][1][0], e[2], e[3]
            t, cur = env[n]
            env2 = dict(env)
            if t in (Ty.STR, Ty.STR_REV):
                if m == "push" and len(args) == 1:
                    a = self.ex(args[0], env)
                    env2[n] = (t, "(%s ++ [%s])" % (cur, a) if t == Ty.STR else "(%s :: %s)" % (a, cur))
                    return cont(env2)
                if m == "push_str" and len(args) == 1:
                    if args[0][0] == "str" and t == Ty.STR_REV:
                        a = coq_str_lit(args[0][1][::-1])
                    elif t == Ty.STR_REV:
                        a = "(rev %s)" % self.ex(args[0], env)
                    else:
                        a = self.ex(args[0], env)
                    env2[n] = (t, "(%s ++ %s)" % (cur, a) if t == Ty.STR else "(%s ++ %s)" % (a, cur))
                    return cont(env2)
                if m == "clear" and not args:
                    env2[n] = (t, "[]")
                    return cont(env2)
            raise Rs2vError("method %s.%s" % (n, m))
        if k == "call" and e[1][0] == "path":
            h = self.cfg.get("helpers", {}).get(e[1][1][-1])
            if h and h.get("mut") is not None:
                mi = h["mut"]
                tgt = e[2][mi]
                if tgt[0] != "ref" or tgt[1][0] != "path" or tgt[1][1][0] not in env:
                    raise Rs2vError("&mut argument of %s" % h["coq"])
                n = tgt[1][1][0]
                argt = [self.ex(a, env) for a in e[2]]
                env2 = dict(env)
                env2[n] = (env[n][0], "(%s %s)" % (h["coq"], " ".join(argt)))
                return cont(env2)
        raise Rs2vError("effect %r" % (e,))

    def cond(self, e, env, cont, ctx):
        c = self.ex(e[1], env)
        a = self.run(e[2][1], e[2][2], env, lambda env2, _v=None: cont(env2), ctx)
        if e[3] is None:
            b = cont(env)
        else:
            b = self.run(e[3][1], e[3][2], env, lambda env2, _v=None: cont(env2), ctx)
        return "if %s then\n%s\nelse\n%s" % (c, a, b)

    def iflet(self, e, env, cont, ctx):
        pat, scrut, blk, els = e[1], e[2], e[3], e[4]
        if pat[0] != "ctor" or pat[1] != ["Some"] or len(pat[2]) != 1:
            raise Rs2vError("if let pattern %r" % (pat,))
        h = self.cfg.get("iflet_scrutinee")
        if not h:
            raise Rs2vError("if let not configured")
        st, sterm = h(self, scrut, env)
        v = self.newvar(pat[2][0] or "x")
        env2 = dict(env)
        if pat[2][0]:
            env2[pat[2][0]] = (st, v)
        a = self.run(blk[1], blk[2], env2, lambda env3, _v=None: cont({x: env3[x] for x in env}), ctx)
        b = cont(env) if els is None else self.run(els[1], els[2], env, lambda env3, _v=None: cont(env3), ctx)
        return "match %s with\n| Some %s =>\n%s\n| None =>\n%s\nend" % (sterm, v, a, b)

    def match(self, e, env, cont, ctx):
        h = self.cfg.get("match_handler")
        if not h:
            raise Rs2vError("match not configured")
        return h(self, e, env, cont, ctx)

    def tail(self, e, env, k, ctx):
        """a block's tail expression: either control flow whose arms end the block, or a value"""
        if e[0] == "if":
            c = self.ex(e[1], env)
            a = self.run(e[2][1], e[2][2], env, k, ctx)
            if e[3] is None:
                b = k(env, None)
            else:
                b = self.run(e[3][1], e[3][2], env, k, ctx)
            return "if %s then\n%s\nelse\n%s" % (c, a, b)
        if e[0] == "block":
            return self.run(e[1], e[2], env, k, ctx)
        if e[0] in ("iflet", "match"):
            return self.effect(e, env, lambda env2, _v=None: k(env2, None), ctx)
        if self.is_unit_effect(e, env):
            return self.effect(e, env, lambda env2, _v=None: k(env2, None), ctx)
        return k(env, e)

    def is_unit_effect(self, e, env):
        """a unit-valued call written without ';' as the last expression of a block"""
        if e[0] == "mcall" and e[1][0] == "path" and len(e[1][1]) == 1 and e[1][1][0] in env \
                and e[2] in ("push", "push_str", "clear"):
            return True
        if e[0] == "call" and e[1][0] == "path":
            h = self.cfg.get("helpers", {}).get(e[1][1][-1])
            return bool(h and h.get("mut") is not None)
        return False

    # ---- loops
    def loop(self, s, env, cont, ctx):
        if ctx.get("loop"):
            raise Rs2vError("nested loop")
        pat, it, body = s[1], s[2], s[3]
        name = "%s_body" % self.cfg["coq_name"]
        sv = "st"
        benv = self.unpack(env, sv)
        lp = self.cfg["loop"]
        if it[0] == "bin" and it[1] == "..":
            # for _i in a..b : iteration count fixed at loop entry, the item is unused
            if pat in self.used_names(body):
                raise Rs2vError("range loop variable is used")
            item = None
            count = "(%s - %s)%%nat" % (self.ex(it[3], env), self.ex(it[2], env))
            drive = lp["for_n"] % (name_call(name, self.cfg), count, self.pack(env))
        elif it[0] == "mcall" and it[2] == "chars" and not it[3]:
            item = self.newvar(pat)
            benv[pat] = (Ty.CHAR, item)
            drive = lp["for_each"] % (name_call(name, self.cfg), self.ex(it[1], env), self.pack(env))
        elif it[0] == "path" and lp.get("for_each_elem"):
            item = self.newvar(pat)
            benv[pat] = (self.cfg.get("elem_type", Ty.STR), item)
            drive = lp["for_each"] % (name_call(name, self.cfg), self.ex(it, env), self.pack(env))
        else:
            raise Rs2vError("loop iterator %r" % (it,))
        stp = self.cfg["step"]
        body_term = self.run(body[1], body[2], benv,
                             lambda env2, v=None: stp["cont"] % self.pack(env2), {"loop": True})
        params = self.cfg.get("fn_params", "")
        self.loops.append((name, "Definition %s %s (%s : %s)%s : %s :=\n%s.\n" % (
            name, params, sv, self.cfg["state_type"],
            " (%s : %s)" % (item, self.cfg.get("item_type", "char")) if item else "",
            stp["type"], body_term)))
        sv2 = self.newvar("st")
        after = cont(self.unpack(env, sv2))
        return self.cfg["res"]["consume"] % {"drive": drive, "sv": sv2, "after": after}

    def used_names(self, node):
        out = set()

        def walk(n):
            if isinstance(n, tuple):
                if n and n[0] == "path" and len(n) > 1 and isinstance(n[1], list):
                    out.update(n[1])
                for x in n:
                    walk(x)
            elif isinstance(n, list):
                for x in n:
                    walk(x)
        walk(node)
        return out

    # ---- whole function
    def function(self, params, body):
        env = {}
        for pn, _ in params:
            if pn in self.cfg["params"]:
                env[pn] = self.cfg["params"][pn]
        term = self.run(body[1], body[2], env, lambda env2, v: self.final(v, env2), {})
        return term

    def final(self, v, env):
        if v is None:
            f = self.cfg.get("final_state")
            if f:
                return f(self, env)
            raise Rs2vError("function ends without a value")
        return self.result_value(v, env)


def name_call(name, cfg):
    a = cfg.get("fn_args", "")
    return "(%s %s)" % (name, a) if a else name
